#!/usr/bin/env python3
"""Writes out/replay/overlay.json (what `stunvc` builds before each oracle run), for running an oracle by hand:
   cd /repo && go test -overlay /verif/out/replay/overlay-manual.json -vet=off -count=1 -run 'TestOracleC10$' ."""
import glob, json, os
ov = {}
for f in glob.glob('/verif/replay/*.go'):
    ov['/repo/zz_' + os.path.basename(f)] = f
for f in glob.glob('/verif/replay/hmac/*.go'):
    ov['/repo/internal/hmac/zz_' + os.path.basename(f)] = f
os.makedirs('/verif/out/replay', exist_ok=True)
json.dump({'Replace': ov}, open('/verif/out/replay/overlay-manual.json', 'w'))
