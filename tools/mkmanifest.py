#!/usr/bin/env python3
"""Regenerates /verif/MANIFEST.json from the table below (checks) and properties.jsonl (not_applicable)."""
import json, subprocess
TECH = "contract-based deductive verification: VC generation (symbolic execution with loop invariants, modular calls) over go/ssa of the real code; contracts as //@ comments in build-tag-guarded files; obligations discharged by z3 4.8.12 / z3-new 5.1.0 / cvc5 1.0"
NOTE = "trusted: externals table (/verif/spec/10_externals.spec), go/ssa faithfulness, SMT solvers, the VC generator; int/int64 treated as mathematical; goroutine schedules not modelled; full list in evidence.assumptions and coverage.trusted_base"
CHECKS = {
 "C01": "Every decoding entry point is proved panic-free (index, slice, nil, division duties at every site), terminating (loop variant) and to satisfy the attribute-view postcondition (each value a view of exactly the declared bytes, in wire order, inside the declared body) for all byte strings, lengths and capacities, in both tag sets. Not covered: the allocation-size clause.",
 "C02": "Decode's success is proved equivalent (iff) to the RFC 5389 acceptance predicate and its struct fields equal to the reference parse, for every input, unbounded; Get/Contains proved against a least-index specification. Not covered yet: ForEach.",
 "C07": "Every typed getter and both checkers are proved panic-free for every attribute length and buffer capacity (incl. cap==len), never to re-slice an attribute value beyond its length (locality duty), and to assign nothing but their destination (frame), with the message's visible bytes and length proved restored by MessageIntegrity.Check; both tag sets.",
 "C03": "Every building operation (Reset, WriteHeader, SetType, transaction-ID setters, Add, every typed/integrity/fingerprint setter, Build, WriteAttributes, Encode) is proved against a complete functional contract over the raw bytes and the struct: Add appends exactly one TLV (type, length, value bytes, zero padding) after an untouched body and mirrors it in Attributes; the header invariant Built (cookie, type per RFC bit layout, length == len(Raw)-20, multiple of 4, transaction ID) is preserved by every operation and by the Setter interface contract, so it holds after any sequence (unbounded history by modular induction); Encode's header and struct effect are proved for every prior state. Not machine-checked: the closing decode(encode(m)) == m composition (argued from Add's and Decode's contracts), and the wire bytes of re-added attributes inside Encode's loop (bounded stand-in planned; solver budget).",
 "C05": "FingerprintAttr.AddTo is proved to append exactly CRC-32(all preceding bytes with the final header length) XOR 0x5354554e (crc32 an uninterpreted function of the byte sequence, with sequence extensionality), and Check is proved to succeed iff the first FINGERPRINT value is 4 bytes and equals that value over Raw[:len-8]; both tag sets. The bit-flip/burst corollary rests on the assumed detection property of the CRC-32 polynomial (not about this code).",
 "C06": "Every typed setter is proved to append exactly the RFC 5389 wire bytes as a function of its argument (family codes, port and address XOR-ed with cookie and transaction ID via xor lemmas proved over bit-vectors, class/number split, 16-bit UNKNOWN-ATTRIBUTES entries) and every getter to return the RFC decoding function of the value bytes, for all values; the add-then-decode-then-get composition itself is argued from these contracts, not machine-checked.",
 "C08": "The postconditions of Decode, Add, WriteHeader, Build, Encode, the typed setters are complete functions of the inputs (exact attribute count, zero padding, all 20 header bytes, header length == len(Raw)-20 for every prior state), so a reused Message is indistinguishable from a fresh one; copy semantics proved as ownership clauses: after Decode/Write/UnmarshalBinary/GobDecode/CloneTo the new Raw holds the argument's bytes in the old Raw region or a fresh one (never the argument's), Add's value is copied, MarshalBinary returns a fresh region.",
 "C09": "Each setter is proved to return an error iff the value is unrepresentable (literal limits 513/763/763/763, reason 763, IP length not 4/16, missing default reason, FINGERPRINT present) and, on error, to leave raw bytes, length and attribute list unchanged (frame + Unchanged postcondition); Build is proved, over a ghost record of setter outcomes, to return the first failing setter's error and call no later setter; both tag sets.",
 "C13": "Every Agent method is proved against the abstract transaction-table specification: return value, new table (as a relation over all ids, unbounded) and the ghost event log (handler invocations with id and error), incl. Collect emitting exactly one timeout for exactly the ids whose deadline is strictly before t (range-over-map by ghost enumeration, loop invariants) and Close one closed event per remaining id; any call sequence follows by the representation invariant AgentInv. Handlers are assumed not to re-enter the agent in this sequential specification.",
 "C14": "Lock discipline proved for every Agent method: guarded fields (transactions, closed, handler) and the map are only touched while the ghost flag held[agent] is set, Lock only when clear, every exit with it clear, one critical section per method, no handler call inside it (except Close, the property's carve-out); the critical section's effect is C13's contract. Linearizability, race- and deadlock-freedom then follow by the standard single-lock reduction argument, which is assumed, not machine-checked; schedules are not explored.",
 "C19": "MessageType.Value and ReadValue are proved equal to the RFC 5389 figure-3 layout written bit by bit, over 16-bit vectors (the complete domain), and the two spec functions are proved mutually inverse.",
}
NA_DEFAULT = "check not built yet (work in progress; see DESIGN.md section 5 for the plan)"
NA = {
 "C20": "heap allocation is decided by the compiler's escape analysis and the runtime, which Go source semantics - and hence contracts over them - do not define",
}
props = [json.loads(l)["id"] for l in open("/verif/properties.jsonl")]
hooks = subprocess.check_output(["git", "-C", "/repo", "log", "--format=%H", "--grep=^verif:"]).decode().split()
m = {
 "version": 1,
 "setup_cmd": "cd /verif/tool && GOFLAGS=-mod=vendor GOPROXY=off GOSUMDB=off GOTOOLCHAIN=local go build -o ../bin/stunvc ./cmd/stunvc",
 "hooks": {"guard": "verif", "enable": "contracts are comment-only files (verif_contracts.go) guarded by //go:build verif; the checks load /repo with -tags verif (and verif,debug)",
           "baseline_off_cmd": "cd /repo && GOFLAGS=-mod=mod GOPROXY=off GOSUMDB=off go test -vet=off -count=1 ./...",
           "source_commits": hooks, "add_only": True},
 "engines": [{"name": "stunvc", "path": "/verif/tool", "serves_properties": sorted(CHECKS),
              "kind_free_text": "home-made VC generator over go/ssa of /repo's working tree; contracts as //@ comments in build-tag-guarded files; spec functions and trusted externals in /verif/spec; obligations discharged by z3 4.8.12 / z3-new 5.1.0 / cvc5 raced"}],
 "checks": [{"property_id": p, "quick_cmd": f"bin/stunvc check -property {p} -tier quick", "thorough_cmd": f"bin/stunvc check -property {p} -tier thorough",
             "evidence_file": f"/verif/evidence/{p}.json", "engine": "stunvc",
             "replay_cmd_template": "cat {path}",
             "level_claimed": {"category": "proof", "text": t, "design_ref": "DESIGN.md section 5, " + p},
             "level_note": NOTE, "technique": TECH} for p, t in sorted(CHECKS.items())],
 "notes": "see DESIGN.md; KNOWN_FINDINGS.txt lists genuine defects (fixed / known)",
 "not_applicable": [{"property_id": p, "reason": NA.get(p, NA_DEFAULT)} for p in props if p not in CHECKS],
}
json.dump(m, open("/verif/MANIFEST.json", "w"), indent=1)
print("checks:", sorted(CHECKS), "not_applicable:", [x["property_id"] for x in m["not_applicable"]])
