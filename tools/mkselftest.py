#!/usr/bin/env python3
"""mkselftest.py log...: assembles SELFTEST.md from the output lines of selftest/all.sh (several instances may have run on disjoint subsets)."""
import sys, re, subprocess, datetime
rows = {}
for f in sys.argv[1:]:
    for l in open(f):
        m = re.match(r'^(C\d+-m\d+): (CAUGHT|MISSED|PATCH-DOES-NOT-APPLY|SKIP)(.*)$', l.strip())
        if not m:
            continue
        sid, verdict, rest = m.groups()
        v = re.search(r'violations=(\d+)', rest); c = re.search(r'with-failing-input=(\d+)', rest); fi = re.search(r'first=(.*)$', rest)
        first = fi.group(1) if fi else rest.strip()
        first = re.sub(r' status=.*', '', first)[:110].replace('|', '\\|')
        rows[sid] = (verdict.lower() if verdict == 'CAUGHT' else verdict, v.group(1) if v else '0', c.group(1) if c else '0', first)
def key(s):
    a, b = s.split('-m'); return (int(a[1:]), int(b))
rh = subprocess.check_output(['git', '-C', '/repo', 'rev-parse', '--short', 'HEAD']).decode().strip()
vh = subprocess.check_output(['git', '-C', '/verif', 'rev-parse', '--short', 'HEAD']).decode().strip()
out = ['# Seeded changes against the quick checks', '',
       'Run of `selftest/all.sh` (several instances on disjoint subsets, assembled by `tools/mkselftest.py`) on %s; /repo HEAD %s, /verif HEAD %s.' % (datetime.datetime.utcnow().strftime('%Y-%m-%dT%H:%MZ'), rh, vh),
       'Each change is applied to a scratch worktree (never to /repo) and the quick check of its property is run with `-repo`.', '',
       '| seed | verdict | violations | with failing input | first failing obligation |', '|---|---|---|---|---|']
n = caught = conf = 0
for sid in sorted(rows, key=key):
    verdict, v, c, first = rows[sid]
    out.append('| %s | %s | %s | %s | `%s` |' % (sid, verdict, v, c, first))
    n += 1; caught += verdict == 'caught'; conf += (verdict == 'caught' and int(c) > 0)
out += ['', '**%d of %d reported, %d of them with a concrete failing input on the real code.**' % (caught, n, conf)]
open('/verif/SELFTEST.md', 'w').write('\n'.join(out) + '\n')
print('%d seeds, %d caught, %d with failing input' % (n, caught, conf))
