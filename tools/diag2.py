# diag2.py: like diag.py, for pairs of hypotheses
import sys,subprocess,os,concurrent.futures,itertools
g,k=sys.argv[1:3]
gl=open(g).read().split('\n')
kl=open(k).read().split('\n')
gset=set(gl)
q=[l for l in kl if l.startswith('(assert') and l not in gset]
print(len(q),'extra asserts in full variant')
idx=gl.index('(check-sat)')
def run(c):
    body=gl[:idx-1]+[q[i] for i in c]+gl[idx-1:]
    f='/tmp/diag_%s.smt2'%'_'.join(map(str,c))
    open(f,'w').write('\n'.join(body))
    try:
        out=subprocess.run(['z3-new','-T:8',f],capture_output=True,text=True,timeout=12).stdout.split('\n')[0]
    except Exception as e: out='err'
    os.remove(f)
    return c,out
combos=list(itertools.combinations(range(len(q)),2))
with concurrent.futures.ThreadPoolExecutor(14) as ex:
    for c,out in ex.map(run,combos):
        if out=='unsat':
            print(c,out)
            for i in c: print('   ',i,q[i][:500])
