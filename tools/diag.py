# diag.py <ground query .skg.smt2> <full variant .sk.smt2>: which single quantified hypothesis of the full variant closes the ground (instance-only) query - used to find the instance the generator is missing (run stunvc with STUNVC_SMTDIR=<dir> to keep the files)
import sys,subprocess,os,concurrent.futures
g,k=sys.argv[1:3]
gl=open(g).read().split('\n')
kl=open(k).read().split('\n')
gset=set(gl)
q=[l for l in kl if l.startswith('(assert') and l not in gset]
print(len(q),'extra asserts in full variant')
idx=gl.index('(check-sat)')
def run(i):
    body=gl[:idx-1]+[q[i]]+gl[idx-1:]
    f='/tmp/diag_%d.smt2'%i
    open(f,'w').write('\n'.join(body))
    try:
        out=subprocess.run(['z3-new','-T:6',f],capture_output=True,text=True,timeout=10).stdout.split('\n')[0]
    except Exception as e: out='err'
    os.remove(f)
    return i,out
with concurrent.futures.ThreadPoolExecutor(12) as ex:
    for i,out in ex.map(run,range(len(q))):
        if out=='unsat': print(i,out,len(q[i]),q[i][:700])
