#!/usr/bin/env python3
"""mincore.py file.smt2 [--nogoal] [-T secs]: greedy minimisation of the assertions needed for `unsat`.
--nogoal drops the last assertion (the negated goal) first: a result then shows contradictory hypotheses."""
import sys,subprocess
f=sys.argv[1]; nogoal='--nogoal' in sys.argv
T=int(sys.argv[sys.argv.index('-T')+1]) if '-T' in sys.argv else 10
lines=open(f).read().split('\n')
idx=[i for i,l in enumerate(lines) if l.startswith('(assert ')]
if nogoal: lines[idx[-1]]='(assert true)'
keep=set(idx)
def unsat(keep):
    out=[l for i,l in enumerate(lines) if not l.startswith('(assert ') or i in keep]
    open('/tmp/min.smt2','w').write('\n'.join(out))
    try: r=subprocess.run(['z3-new','-T:%d'%T,'/tmp/min.smt2'],capture_output=True,text=True,timeout=T+10).stdout
    except Exception: return False
    return r.startswith('unsat')
if not unsat(keep): print('not unsat to begin with'); sys.exit(1)
# chunked removal first
n=len(idx); chunk=max(1,n//4)
while chunk>=1:
    i=0; order=sorted(keep)
    while i<len(order):
        k2=keep-set(order[i:i+chunk])
        if unsat(k2): keep=k2
        i+=chunk
    chunk//=2
print(len(keep),'assertions')
for i in sorted(keep): print(i,lines[i][:int(sys.argv[sys.argv.index('-W')+1]) if '-W' in sys.argv else 300]); print()
open('/tmp/mincore.smt2','w').write('\n'.join(l for i,l in enumerate(lines) if not l.startswith('(assert ') or i in keep))
