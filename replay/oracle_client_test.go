package stun

import (
	"bytes"
	"errors"
	"fmt"
	"io"
	"sync"
	"testing"
	"time"
)

// Client oracle (C10, C11, C12, C15): a deterministic history driver around the REAL Client with the REAL Agent,
// an in-memory connection, a manual clock and a manual collector (ticks run synchronously in the driver).
// The reference is the property text: per transaction a small record (snapshot of the bytes at Start, RTO at
// Start, transmission times) against which every observed write and handler invocation is judged.

var errOracleWrite = errors.New("oracle: injected write failure")

type ocConn struct {
	mu        sync.Mutex
	writes    [][]byte
	failNext  bool
	onFail    func(p []byte)
	in        chan []byte
	reads     int // number of Read calls entered
	inRead    bool
	closed    int
	closeErr  error
	closedCh  chan struct{}
	closeOnce sync.Once
	readGate  chan struct{} // when non-nil, a Read with nothing to deliver parks here until released
}

func newOcConn() *ocConn {
	return &ocConn{in: make(chan []byte, 64), closedCh: make(chan struct{})}
}

func (c *ocConn) Read(p []byte) (int, error) {
	c.mu.Lock()
	c.reads++
	c.inRead = true
	c.mu.Unlock()
	defer func() { c.mu.Lock(); c.inRead = false; c.mu.Unlock() }()
	select {
	case d := <-c.in:
		if d == nil {
			return 0, io.ErrNoProgress // released without data
		}
		return copy(p, d), nil
	case <-c.closedCh:
		return 0, io.EOF
	}
}

func (c *ocConn) Write(p []byte) (int, error) {
	c.mu.Lock()
	defer c.mu.Unlock()
	if c.failNext {
		c.failNext = false
		if f := c.onFail; f != nil {
			c.onFail = nil
			c.mu.Unlock()
			f(append([]byte(nil), p...)) // what another goroutine may do while this write is failing (no client lock is held here)
			c.mu.Lock()
		}
		return 0, errOracleWrite
	}
	c.writes = append(c.writes, append([]byte(nil), p...))
	return len(p), nil
}

func (c *ocConn) Close() error {
	c.mu.Lock()
	c.closed++
	c.mu.Unlock()
	c.closeOnce.Do(func() { close(c.closedCh) })
	return c.closeErr
}

func (c *ocConn) nWrites() int { c.mu.Lock(); defer c.mu.Unlock(); return len(c.writes) }
func (c *ocConn) nReads() int  { c.mu.Lock(); defer c.mu.Unlock(); return c.reads }

type ocClock struct {
	mu  sync.Mutex
	now time.Time
}

func (c *ocClock) Now() time.Time { c.mu.Lock(); defer c.mu.Unlock(); return c.now }
func (c *ocClock) add(d time.Duration) time.Time {
	c.mu.Lock()
	defer c.mu.Unlock()
	c.now = c.now.Add(d)
	return c.now
}

type ocCollector struct {
	f      func(time.Time)
	closed int
}

func (c *ocCollector) Start(_ time.Duration, f func(time.Time)) error { c.f = f; return nil }
func (c *ocCollector) Close() error                                   { c.closed++; return nil }

// ocAgent wraps the real agent so that the next Start can be made to fail (a user-supplied ClientAgent may fail).
type ocAgent struct {
	*Agent
	failStart bool
}

var errOracleAgentStart = errors.New("oracle: injected agent Start failure")

func (a *ocAgent) Start(id [TransactionIDSize]byte, deadline time.Time) error {
	if a.failStart {
		a.failStart = false
		return errOracleAgentStart
	}
	return a.Agent.Start(id, deadline)
}

type ocTx struct {
	id       [TransactionIDSize]byte
	snapshot []byte
	rto      time.Duration
	txTimes  []time.Time // time of each observed transmission
	startErr error
	calls    int
	events   []Event
	evMsg    []*refEvent
	done     bool
	starting bool
	name     string
}

type refEvent struct {
	err  error
	tid  [TransactionIDSize]byte
	raw  []byte
	nAtt int
}

type ocWorld struct {
	o        *oracle
	conn     *ocConn
	clock    *ocClock
	coll     *ocCollector
	agent    *ocAgent
	client   *Client
	maxAtt   int
	rto      time.Duration
	txs      []*ocTx
	mu       sync.Mutex
	fallback []*refEvent
	seenW    int // writes already attributed
	closed   bool
	history  []string
	noClose  bool
	dos      []*ocDo
	raced    bool
}

type ocDo struct {
	tx       *ocTx
	ret      chan error
	returned bool
	err      error
}

func (w *ocWorld) hist() string {
	return fmt.Sprintf("[maxAttempts=%d rto=%v noConnClose=%v] %v", w.maxAtt, w.rto, w.noClose, w.history)
}

func newOcWorld(o *oracle, maxAtt int, rto time.Duration, noConnClose bool, withFallback bool) *ocWorld {
	w := &ocWorld{o: o, conn: newOcConn(), clock: &ocClock{now: time.Unix(1_700_000_000, 0)}, coll: &ocCollector{}, maxAtt: maxAtt, rto: rto, noClose: noConnClose}
	w.agent = &ocAgent{Agent: NewAgent(nil)}
	opts := []ClientOption{WithClock(w.clock), WithCollector(w.coll), WithRTO(rto), WithAgent(w.agent)}
	if withFallback {
		opts = append(opts, WithHandler(func(e Event) {
			w.mu.Lock()
			w.fallback = append(w.fallback, snapEvent(e))
			w.mu.Unlock()
		}))
	}
	if noConnClose {
		opts = append(opts, WithNoConnClose())
	}
	if maxAtt == 0 {
		opts = append(opts, WithNoRetransmit)
	}
	c, err := NewClient(w.conn, opts...)
	if err != nil {
		o.failf("NewClient: %v", err)
		return nil
	}
	if maxAtt > 0 {
		c.maxAttempts = int32(maxAtt)
	} else {
		// WithNoRetransmit keeps the RTO given by WithRTO (it only substitutes a default when none is set)
	}
	w.client = c
	w.waitReads(0)
	return w
}

func snapEvent(e Event) *refEvent {
	r := &refEvent{err: e.Error, tid: e.TransactionID}
	if e.Message != nil {
		r.raw = append([]byte(nil), e.Message.Raw...)
		r.nAtt = len(e.Message.Attributes)
	}
	return r
}

// waitReads waits until the reader goroutine has entered Read more than r0 times: the datagram pushed after reading
// r0 has then been processed completely (Process and the handler run synchronously in the reader).
func (w *ocWorld) waitReads(r0 int) {
	// generous: the machine may be busy with other checks; a reader that never comes back is reported, slowness is not
	for i := 0; i < 600000; i++ {
		if w.conn.nReads() > r0 || w.closed {
			return
		}
		time.Sleep(50 * time.Microsecond)
	}
	w.o.failf("the reader goroutine did not come back to Read within 30s; history %s", w.hist())
}

func (w *ocWorld) push(d []byte) {
	r0 := w.conn.nReads()
	w.conn.in <- d
	w.waitReads(r0)
}

func (w *ocWorld) build(id byte, size int) *Message {
	m := new(Message)
	var tid [TransactionIDSize]byte
	for i := range tid {
		tid[i] = id
	}
	m.TransactionID = tid
	m.Type = BindingRequest
	m.WriteHeader()
	for len(m.Raw) < size {
		n := size - len(m.Raw) - 4
		if n > 700 {
			n = 700
		}
		if n < 0 {
			break
		}
		v := make([]byte, n)
		for i := range v {
			v[i] = byte(w.o.rng.Intn(256))
		}
		m.Add(AttrType(0x8000+uint16(w.o.rng.Intn(256))), v)
	}
	return m
}

// attribute new writes to transactions and judge them (C11)
func (w *ocWorld) checkWrites(op string) {
	w.conn.mu.Lock()
	ws := w.conn.writes[w.seenW:]
	w.seenW = len(w.conn.writes)
	w.conn.mu.Unlock()
	now := w.clock.Now()
	for _, b := range ws {
		if w.closed {
			w.o.failf("a write of %d bytes happened after Close returned; history %s", len(b), w.hist())
			continue
		}
		var tx *ocTx
		if len(b) >= 20 {
			for i := len(w.txs) - 1; i >= 0; i-- {
				t := w.txs[i]
				if bytes.Equal(b[8:20], t.id[:]) && (t.starting || (t.startErr == nil && len(t.txTimes) > 0)) {
					tx = t
					break
				}
			}
		}
		if tx == nil {
			w.o.failf("after %s: a write of %d bytes matches no started transaction; history %s", op, len(b), w.hist())
			continue
		}
		if !bytes.Equal(b, tx.snapshot) {
			w.o.failf("after %s: transmission #%d of %s (a %d-byte request) wrote %d bytes that differ from the message as it was at Start (first difference at byte %d); history %s",
				op, len(tx.txTimes), tx.name, len(tx.snapshot), len(b), firstDiff(b, tx.snapshot), w.hist())
		}
		k := len(tx.txTimes)
		if k > w.maxAtt {
			w.o.failf("after %s: %s was written %d times, more than maxAttempts+1 = %d; history %s", op, tx.name, k+1, w.maxAtt+1, w.hist())
		}
		if tx.done {
			w.o.failf("after %s: %s was written again after it had ended; history %s", op, tx.name, w.hist())
		}
		if k > 0 {
			deadline := tx.txTimes[k-1].Add(time.Duration(k) * tx.rto)
			if !now.After(deadline) {
				w.o.failf("after %s: transmission #%d of %s repeated at %v, not after its deadline %v ((k+1)*rto with the RTO %v in force at Start); history %s",
					op, k, tx.name, now.Sub(tx.txTimes[0]), deadline.Sub(tx.txTimes[0]), tx.rto, w.hist())
			}
		}
		tx.txTimes = append(tx.txTimes, now)
	}
}

func firstDiff(a, b []byte) int {
	for i := 0; i < len(a) && i < len(b); i++ {
		if a[i] != b[i] {
			return i
		}
	}
	if len(a) < len(b) {
		return len(a)
	}
	return len(b)
}

func (w *ocWorld) handlerFor(tx *ocTx) Handler {
	return func(e Event) {
		w.mu.Lock()
		tx.calls++
		tx.events = append(tx.events, e)
		tx.evMsg = append(tx.evMsg, snapEvent(e))
		tx.done = true
		n := tx.calls
		w.mu.Unlock()
		if n > 1 {
			w.o.failf("the handler of %s was invoked %d times; history %s", tx.name, n, w.hist())
		}
		if tx.startErr != nil {
			w.o.failf("the handler of %s was invoked although its Start returned %v; history %s", tx.name, tx.startErr, w.hist())
		}
	}
}

func (w *ocWorld) opStart(id byte, size int, mutateAfter bool) *ocTx {
	m := w.build(id, size)
	tx := &ocTx{id: m.TransactionID, snapshot: append([]byte(nil), m.Raw...), rto: time.Duration(w.client.rto), name: fmt.Sprintf("tx%d(id %02x, %d bytes)", len(w.txs), id, len(m.Raw))}
	w.history = append(w.history, fmt.Sprintf("Start(%02x,%dB)", id, len(m.Raw)))
	w.txs = append(w.txs, tx)
	// a started transaction that is still in flight with the same id makes this Start fail: judged below
	tx.starting = true
	err := w.client.Start(m, w.handlerFor(tx))
	w.checkWrites("Start")
	tx.starting = false
	tx.startErr = err
	if err != nil {
		tx.done = true
	}
	if mutateAfter {
		for i := range m.Raw { // the caller reuses its buffer
			m.Raw[i] ^= 0xff
		}
		m.Raw = m.Raw[:0]
	}
	if w.closed && !errors.Is(err, ErrClientClosed) {
		w.o.failf("Start after Close returned %v, expected ErrClientClosed; history %s", err, w.hist())
	}
	w.checkWrites("Start")
	raced := w.raced
	w.raced = false
	if err == nil && len(tx.txTimes) != 1 && !(raced && len(tx.txTimes) == 0) {
		w.o.failf("Start of %s returned nil but wrote the request %d times; history %s", tx.name, len(tx.txTimes), w.hist())
	}
	return tx
}

// opDo: Do in its own goroutine (it blocks until the handler has run)
func (w *ocWorld) opDo(id byte, size int) {
	m := w.build(id, size)
	tx := &ocTx{id: m.TransactionID, snapshot: append([]byte(nil), m.Raw...), rto: time.Duration(w.client.rto), name: fmt.Sprintf("tx%d(Do, id %02x, %d bytes)", len(w.txs), id, len(m.Raw))}
	w.history = append(w.history, fmt.Sprintf("Do(%02x,%dB)", id, len(m.Raw)))
	w.txs = append(w.txs, tx)
	d := &ocDo{tx: tx, ret: make(chan error, 1)}
	w.dos = append(w.dos, d)
	tx.starting = true
	nw := w.conn.nWrites()
	h := w.handlerFor(tx)
	go func() { d.ret <- w.client.Do(m, func(e Event) { h(e) }) }()
	// wait until Do has written the request or returned
	for i := 0; i < 400000 && w.conn.nWrites() == nw; i++ {
		select {
		case d.err = <-d.ret:
			d.returned = true
			if d.err != nil {
				tx.startErr = d.err
				tx.done = true
			}
			i = 400000
		default:
			time.Sleep(50 * time.Microsecond)
		}
	}
	time.Sleep(200 * time.Microsecond)
	w.checkWrites("Do")
	tx.starting = false
	w.checkDos("Do")
}

// checkDos: a Do returns once (and only once) its handler invocation has finished, or at once with Start's error
func (w *ocWorld) checkDos(op string) {
	for _, d := range w.dos {
		if d.returned {
			continue
		}
		w.mu.Lock()
		calls := d.tx.calls
		w.mu.Unlock()
		if calls >= 1 {
			select {
			case d.err = <-d.ret:
				d.returned = true
				if d.err != nil {
					w.o.failf("after %s: Do of %s returned %v although its handler ran; history %s", op, d.tx.name, d.err, w.hist())
				}
			case <-time.After(20 * time.Second):
				d.returned = true
				w.o.failf("after %s: the handler of %s has run but Do did not return; history %s", op, d.tx.name, w.hist())
			}
			continue
		}
		select {
		case d.err = <-d.ret:
			d.returned = true
			if d.err == nil {
				w.mu.Lock()
				calls = d.tx.calls
				w.mu.Unlock()
				if calls == 0 {
					w.o.failf("after %s: Do of %s returned nil before its handler was invoked; history %s", op, d.tx.name, w.hist())
				}
			} else {
				d.tx.startErr = d.err
				d.tx.done = true
			}
		default:
		}
	}
}

func (w *ocWorld) inflight(id [TransactionIDSize]byte) *ocTx {
	for _, t := range w.txs {
		if t.id == id && t.startErr == nil && !t.done {
			return t
		}
	}
	return nil
}

func (w *ocWorld) response(id byte, nAttr int) []byte {
	m := new(Message)
	for i := range m.TransactionID {
		m.TransactionID[i] = id
	}
	m.Type = BindingSuccess
	m.WriteHeader()
	for i := 0; i < nAttr; i++ {
		m.Add(AttrSoftware, []byte(fmt.Sprintf("oracle-%d-%d", id, i)))
	}
	return append([]byte(nil), m.Raw...)
}

func (w *ocWorld) opDeliver(id byte, nAttr int, what string) {
	if w.closed {
		return
	}
	d := w.response(id, nAttr)
	var tid [TransactionIDSize]byte
	copy(tid[:], d[8:20])
	tx := w.inflight(tid)
	w.mu.Lock()
	nf := len(w.fallback)
	w.mu.Unlock()
	w.history = append(w.history, fmt.Sprintf("%s(%02x,%d attrs)", what, id, nAttr))
	w.push(d)
	w.checkWrites(what)
	w.checkDos(what)
	w.mu.Lock()
	defer w.mu.Unlock()
	if tx != nil {
		if tx.calls != 1 {
			w.o.failf("a response for the in-flight %s was delivered but its handler was invoked %d times; history %s", tx.name, tx.calls, w.hist())
			return
		}
		ev := tx.evMsg[0]
		if ev.err != nil || !bytes.Equal(ev.raw, d) || ev.nAtt != nAttr {
			w.o.failf("the handler of %s saw error %v and a message of %d bytes / %d attributes, but the datagram had %d bytes / %d attributes; history %s",
				tx.name, ev.err, len(ev.raw), ev.nAtt, len(d), nAttr, w.hist())
		}
		if len(w.fallback) != nf {
			w.o.failf("a response for the in-flight %s also went to the fallback handler; history %s", tx.name, w.hist())
		}
		return
	}
	// no transaction in flight for this id: nobody's handler may run; the fallback (if any) sees exactly this datagram
	if w.client.handler != nil {
		if len(w.fallback) != nf+1 {
			w.o.failf("a message with no in-flight transaction (id %02x) reached the fallback handler %d times; history %s", id, len(w.fallback)-nf, w.hist())
		} else if fe := w.fallback[nf]; !bytes.Equal(fe.raw, d) || fe.nAtt != nAttr {
			w.o.failf("the fallback handler saw %d bytes / %d attributes for a datagram of %d bytes / %d attributes; history %s", len(fe.raw), fe.nAtt, len(d), nAttr, w.hist())
		}
	}
}

func (w *ocWorld) opGarbage() {
	if w.closed {
		return
	}
	w.history = append(w.history, "garbage")
	g := make([]byte, 1+w.o.rng.Intn(60))
	w.o.rng.Read(g)
	g[0] |= 0xc0 // not a STUN message
	calls := w.totalCalls()
	w.push(g)
	w.checkWrites("garbage")
	if w.totalCalls() != calls {
		w.o.failf("an undecodable datagram caused a handler invocation; history %s", w.hist())
	}
}

func (w *ocWorld) totalCalls() int {
	w.mu.Lock()
	defer w.mu.Unlock()
	n := len(w.fallback)
	for _, t := range w.txs {
		n += t.calls
	}
	return n
}

// advance the clock and run one collector tick
func (w *ocWorld) opTick(d time.Duration) {
	if w.closed {
		return
	}
	now := w.clock.add(d)
	w.history = append(w.history, fmt.Sprintf("tick(+%v)", d))
	// which transactions may legitimately report a final timeout in this tick?
	type exp struct {
		tx       *ocTx
		deadline time.Time
	}
	var before []exp
	for _, t := range w.txs {
		if t.startErr == nil && !t.done && len(t.txTimes) > 0 {
			k := len(t.txTimes)
			before = append(before, exp{t, t.txTimes[k-1].Add(time.Duration(k) * t.rto)})
		}
	}
	if w.coll.f != nil {
		w.coll.f(now)
	}
	w.checkWrites("tick")
	w.checkDos("tick")
	w.mu.Lock()
	defer w.mu.Unlock()
	for _, e := range before {
		t := e.tx
		if t.calls == 1 && t.evMsg[0].err != nil && errors.Is(t.evMsg[0].err, ErrTransactionTimeOut) {
			if !now.After(e.deadline) {
				w.o.failf("%s reported a timeout at %v, not after its last deadline %v; history %s", t.name, now.Sub(t.txTimes[0]), e.deadline.Sub(t.txTimes[0]), w.hist())
			}
			if len(t.txTimes) != w.maxAtt+1 {
				w.o.failf("%s reported its final timeout after %d transmissions, expected %d (maxAttempts+1); history %s", t.name, len(t.txTimes), w.maxAtt+1, w.hist())
			}
		}
		if now.After(e.deadline) && t.calls == 0 {
			// deadline passed: the transaction was either retransmitted (a new write was attributed above) or ended
			k := 0
			for _, tt := range t.txTimes {
				if tt.Equal(now) {
					k++
				}
			}
			if k == 0 {
				w.o.failf("the deadline of %s passed at this tick but it was neither retransmitted nor ended; history %s", t.name, w.hist())
			}
		}
	}
}

func (w *ocWorld) opFailNextWrite() {
	w.history = append(w.history, "failNextWrite")
	w.conn.mu.Lock()
	w.conn.failNext = true
	w.conn.mu.Unlock()
}

// opFailNextWriteRacingResponse: the next write fails, and while it is failing the reader processes a response for
// the very transaction being written (simulated interleaving: the failing Write calls Agent.Process itself; the client
// holds no lock while it writes). The transaction must still complete exactly once and later transactions must be
// unaffected, however the transaction objects are recycled.
func (w *ocWorld) opFailNextWriteRacingResponse() {
	w.history = append(w.history, "failNextWrite+responseDuringIt")
	w.conn.mu.Lock()
	w.conn.failNext = true
	w.conn.onFail = func(p []byte) {
		w.raced = true // the failing write did reach the peer (it answered): not counted as "nothing was written"
		if len(p) < 20 {
			return
		}
		m := new(Message)
		m.Raw = append(m.Raw, w.response(p[8], 1)...)
		if m.Decode() == nil {
			_ = w.agent.Agent.Process(m)
		}
	}
	w.conn.mu.Unlock()
}

func (w *ocWorld) opFailNextAgentStart() {
	w.history = append(w.history, "failNextAgentStart")
	w.agent.failStart = true
}

func (w *ocWorld) opSetRTO(d time.Duration) {
	w.history = append(w.history, fmt.Sprintf("SetRTO(%v)", d))
	w.client.SetRTO(d)
}

func (w *ocWorld) opClose() {
	w.history = append(w.history, "Close")
	done := make(chan error, 1)
	go func() { done <- w.client.Close() }()
	var err error
	select {
	case err = <-done:
	case <-time.After(50 * time.Millisecond):
		// Under WithNoConnClose the reader is parked in Read: Close must be waiting for it. Let the Read return.
		if !w.noClose || w.closed {
			select {
			case err = <-done:
			case <-time.After(20 * time.Second):
				w.o.failf("Close did not return; history %s", w.hist())
				return
			}
		} else {
			w.conn.in <- nil
			select {
			case err = <-done:
			case <-time.After(20 * time.Second):
				w.o.failf("Close did not return after the pending Read returned; history %s", w.hist())
				return
			}
		}
	}
	if w.closed {
		if !errors.Is(err, ErrClientClosed) {
			w.o.failf("a second Close returned %v, expected ErrClientClosed; history %s", err, w.hist())
		}
		return
	}
	w.closed = true
	if w.noClose {
		// Close has returned: the reader goroutine must be gone, i.e. not sitting in (or about to enter) Read
		time.Sleep(2 * time.Millisecond)
		w.conn.mu.Lock()
		in := w.conn.inRead
		w.conn.mu.Unlock()
		if in {
			w.o.failf("Close returned while the reader goroutine was still running (inside Read); history %s", w.hist())
			w.conn.in <- nil
		}
	}
	if err != nil {
		w.o.failf("the first Close returned %v; history %s", err, w.hist())
	}
	w.conn.mu.Lock()
	nc := w.conn.closed
	w.conn.mu.Unlock()
	if w.noClose && nc != 0 {
		w.o.failf("WithNoConnClose: the connection was closed %d times; history %s", nc, w.hist())
	}
	if !w.noClose && nc != 1 {
		w.o.failf("the connection was closed %d times by Close, expected exactly once; history %s", nc, w.hist())
	}
	w.checkWrites("Close")
	w.checkDos("Close")
	for _, d := range w.dos {
		if !d.returned {
			select {
			case d.err = <-d.ret:
				d.returned = true
			case <-time.After(20 * time.Second):
				d.returned = true
				w.o.failf("Do of %s did not return although the client has been closed; history %s", d.tx.name, w.hist())
			}
		}
	}
	w.mu.Lock()
	for _, t := range w.txs {
		if t.startErr == nil && t.calls != 1 {
			w.o.failf("%s was started successfully but after Close its handler had been invoked %d times (expected exactly once, with a closed error at the latest); history %s", t.name, t.calls, w.hist())
		}
	}
	w.mu.Unlock()
}

func (w *ocWorld) finish() {
	if !w.closed {
		w.opClose()
	}
	calls := w.totalCalls()
	nw := w.conn.nWrites()
	// after Close: Start, Indicate, Do refuse without writing
	m := w.build(0x77, 20)
	if err := w.client.Start(m, func(Event) {}); !errors.Is(err, ErrClientClosed) {
		w.o.failf("Start after Close returned %v, expected ErrClientClosed; history %s", err, w.hist())
	}
	if err := w.client.Indicate(m); !errors.Is(err, ErrClientClosed) {
		w.o.failf("Indicate after Close returned %v, expected ErrClientClosed; history %s", err, w.hist())
	}
	doDone := make(chan error, 1)
	go func() { doDone <- w.client.Do(m, func(Event) {}) }()
	select {
	case err := <-doDone:
		if !errors.Is(err, ErrClientClosed) {
			w.o.failf("Do after Close returned %v, expected ErrClientClosed; history %s", err, w.hist())
		}
	case <-time.After(20 * time.Second):
		w.o.failf("Do after Close did not return; history %s", w.hist())
	}
	// the same request id as an in-flight one at Close time
	for _, t := range w.txs {
		if t.startErr == nil {
			mm := new(Message)
			mm.Raw = append(mm.Raw, t.snapshot...)
			if mm.Decode() == nil {
				if err := w.client.Start(mm, func(Event) {}); !errors.Is(err, ErrClientClosed) {
					w.o.failf("Start after Close, retrying the id of %s, returned %v, expected ErrClientClosed; history %s", t.name, err, w.hist())
				}
			}
			break
		}
	}
	if err := w.client.Close(); !errors.Is(err, ErrClientClosed) {
		w.o.failf("a second Close returned %v, expected ErrClientClosed; history %s", err, w.hist())
	}
	if w.conn.nWrites() != nw {
		w.o.failf("Start/Indicate/Do after Close wrote to the connection; history %s", w.hist())
	}
	time.Sleep(time.Millisecond)
	if w.totalCalls() != calls {
		w.o.failf("a handler was invoked after Close had returned; history %s", w.hist())
	}
	w.mu.Lock()
	for _, t := range w.txs {
		if t.startErr != nil && t.calls != 0 {
			w.o.failf("the handler of %s was invoked although Start returned %v; history %s", t.name, t.startErr, w.hist())
		}
	}
	w.mu.Unlock()
}

// one history: ops is a string over the op alphabet, interpreted by run
//
//	s/S: Start id 1 / id 2 (small); L: Start id 3 large (>2048); r/R: deliver response for id 1 / 2; d: duplicate of last response;
//	g: garbage; t: tick just before the earliest deadline; T: tick just after; u: tick at exactly the deadline;
//	D: Do id 4 (own goroutine); q: response for id 4;
//	w: fail next write; a: fail next agent Start; c: Close; x: SetRTO(other); m: Start id 1 and mutate the caller's buffer
func (w *ocWorld) run(ops string, sizes []int) {
	lastResp := byte(1)
	for i, op := range ops {
		if w.o.fails >= 3 {
			return
		}
		size := sizes[i%len(sizes)]
		switch op {
		case 's':
			w.opStart(1, size, false)
		case 'S':
			w.opStart(2, size, false)
		case 'D':
			w.opDo(4, size)
		case 'q':
			lastResp = 4
			w.opDeliver(4, 1, "response")
		case 'L':
			w.opStart(3, 2100+w.o.rng.Intn(2000), false)
		case 'm':
			w.opStart(1, size, true)
		case 'M':
			w.opStart(3, 1501+w.o.rng.Intn(2500), true)
		case 'r':
			lastResp = 1
			w.opDeliver(1, i%3, "response")
		case 'R':
			lastResp = 2
			w.opDeliver(2, (i+1)%3, "response")
		case 'd':
			w.opDeliver(lastResp, 1, "duplicate")
		case 'g':
			w.opGarbage()
		case 't', 'T', 'u':
			d := w.nextDeadlineIn()
			switch op {
			case 't':
				d -= time.Nanosecond
			case 'T':
				d += time.Nanosecond
			}
			if d < 0 {
				d = 0
			}
			w.opTick(d)
		case 'w':
			w.opFailNextWrite()
		case 'P':
			w.opFailNextWriteRacingResponse()
		case 'a':
			w.opFailNextAgentStart()
		case 'x':
			w.opSetRTO(w.rto*3 + 7*time.Millisecond)
		case 'c':
			w.opClose()
		}
	}
	w.finish()
}

// time from now to the earliest deadline of an in-flight transaction (per the reference), or one RTO
func (w *ocWorld) nextDeadlineIn() time.Duration {
	now := w.clock.Now()
	best := time.Duration(-1)
	for _, t := range w.txs {
		if t.startErr == nil && !t.done && len(t.txTimes) > 0 {
			k := len(t.txTimes)
			d := t.txTimes[k-1].Add(time.Duration(k) * t.rto).Sub(now)
			if best < 0 || d < best {
				best = d
			}
		}
	}
	if best < 0 {
		return w.rto
	}
	return best
}

func (o *oracle) clientHistories(alphabet string, depth int, random int) {
	sizesList := [][]int{{20}, {20, 1200}, {1500, 20, 2047, 2048, 2052}}
	// exhaustive up to depth over the alphabet
	var rec func(prefix string, n int)
	count := 0
	rec = func(prefix string, n int) {
		if !o.more() {
			return
		}
		if len(prefix) > 0 {
			count++
			maxAtt := []int{2, 0, 1}[count%3]
			w := newOcWorld(o, maxAtt, 100*time.Millisecond, count%5 == 4, count%2 == 0)
			if w != nil {
				o.cases++
				w.run(prefix, sizesList[count%len(sizesList)])
			}
		}
		if n == 0 {
			return
		}
		for _, c := range alphabet {
			rec(prefix+string(c), n-1)
		}
	}
	rec("", depth)
	for i := 0; i < random && o.more(); i++ {
		n := 4 + o.rng.Intn(14)
		b := make([]byte, n)
		for j := range b {
			b[j] = alphabet[o.rng.Intn(len(alphabet))]
		}
		w := newOcWorld(o, o.rng.Intn(4), time.Duration(50+o.rng.Intn(500))*time.Millisecond, o.rng.Intn(4) == 0, o.rng.Intn(2) == 0)
		if w != nil {
			o.cases++
			w.run(string(b), sizesList[o.rng.Intn(len(sizesList))])
		}
	}
}

// C10: exactly-once completion under every ordering of the history operations.
func TestOracleC10(t *testing.T) {
	o := newOracle(t)
	// targeted histories first (cheap), then exhaustive depth 4, then random
	for _, h := range []string{"sc", "sTc", "sTTTc", "swTc", "wsc", "wssTr", "asTr", "asc", "sSrRc", "srdc", "sTwTc", "sTrd", "sSTTTTc", "Dq", "Dc", "DTTTc", "DsqrDq", "wDc", "DTwTc", "sPTSsrR", "sPTsSRr", "PsSrR"} {
		w := newOcWorld(o, 2, 100*time.Millisecond, false, true)
		if w != nil {
			o.cases++
			w.run(h, []int{20})
		}
	}
	o.clientHistories("sSrRdgTwacDqP", 4, 100000)
}

// C11: bit-identical, bounded, on-schedule retransmissions.
func TestOracleC11(t *testing.T) {
	o := newOracle(t)
	for _, h := range []string{"LTTT", "sTLT", "mTTT", "MTTT", "MtuT", "sxTTT", "stuT", "sTtuT", "LtuTtuT", "sTsT"} {
		for _, ma := range []int{0, 1, 3, 8} {
			w := newOcWorld(o, ma, 100*time.Millisecond, false, false)
			if w != nil {
				o.cases++
				w.run(h, []int{20, 1400})
			}
		}
	}
	o.clientHistories("sSLmMtTuxr", 4, 100000)
}

// C12: routing by transaction id, many transactions, recycled objects.
// recycledDuringFailingWrite: the first write of Start(X) fails; while it is failing (no client lock is held) the
// response for X is processed - X completes, its transaction object goes back to the pool - and another goroutine
// starts Y, which is handed the recycled object. The failing Start(X) must not disturb Y: Y's response reaches Y's
// handler, exactly once. (Simulated interleaving: everything "the other goroutines do" happens inside the failing Write.)
func (o *oracle) recycledDuringFailingWrite() {
	w := newOcWorld(o, 2, 100*time.Millisecond, false, true)
	if w == nil {
		return
	}
	o.cases++
	var callsX, callsY int
	mx, my := w.build(0x51, 20), w.build(0x52, 20)
	var startYErr error
	w.conn.mu.Lock()
	w.conn.failNext = true
	w.conn.onFail = func(p []byte) {
		r := new(Message)
		r.Raw = append(r.Raw, w.response(0x51, 1)...)
		if r.Decode() == nil {
			_ = w.agent.Agent.Process(r)
		}
		startYErr = w.client.Start(my, func(Event) { callsY++ })
	}
	w.conn.mu.Unlock()
	errX := w.client.Start(mx, func(Event) { callsX++ })
	if callsX != 1 {
		o.failf("history [Start(X) with a failing first write during which X's response is processed and Start(Y) runs]: handler of X called %d times (Start(X) returned %v)", callsX, errX)
	}
	if startYErr != nil {
		return // Y could not be started (not what this scenario is about)
	}
	ry := new(Message)
	ry.Raw = append(ry.Raw, w.response(0x52, 1)...)
	if ry.Decode() == nil {
		_ = w.agent.Agent.Process(ry)
	}
	if callsY != 1 {
		w.mu.Lock()
		nf := len(w.fallback)
		w.mu.Unlock()
		o.failf("history [Start(X): its first write fails; during that write the response for X is processed (X completes, its object is recycled) and Start(Y) gets the recycled object; response(Y)]: handler of Y called %d times, %d event(s) went to the fallback handler: the failing Start(X) unregistered Y", callsY, nf)
	}
	_ = w.client.Close()
}

func TestOracleC12(t *testing.T) {
	o := newOracle(t)
	o.recycledDuringFailingWrite()
	for _, h := range []string{"sPTSsrR", "sPTsSRr", "sPTSLrR"} {
		w := newOcWorld(o, 2, 100*time.Millisecond, false, true)
		if w != nil {
			o.cases++
			w.run(h, []int{20})
		}
	}
	o.clientHistories("sSrRdgTP", 4, 0)
	for o.more() {
		o.cases++
		w := newOcWorld(o, 2, 100*time.Millisecond, false, o.rng.Intn(2) == 0)
		if w == nil {
			return
		}
		n := 1 + o.rng.Intn(40)
		ids := o.rng.Perm(200)[:n]
		for _, id := range ids {
			w.opStart(byte(id+1), 20+4*o.rng.Intn(50), false)
		}
		order := o.rng.Perm(n)
		for _, k := range order {
			switch o.rng.Intn(6) {
			case 0:
				w.opGarbage()
			case 1:
				w.opDeliver(byte(201+o.rng.Intn(50)), o.rng.Intn(3), "unknown-id")
			}
			// responses up to the 1024-byte read buffer
			w.opDeliver(byte(ids[k]+1), o.rng.Intn(40), "response")
			if o.rng.Intn(4) == 0 {
				w.opDeliver(byte(ids[k]+1), 1, "duplicate")
			}
		}
		w.finish()
	}
}

// C15: Close is final, leak-free, honours connection ownership.
// a connection whose Read keeps failing with a timeout error (a shared socket with a read deadline): the reader must
// still notice Close
type ocTimeoutConn struct{ closed chan struct{} }
type ocTimeoutErr struct{}

func (ocTimeoutErr) Error() string   { return "i/o timeout (oracle)" }
func (ocTimeoutErr) Timeout() bool   { return true }
func (ocTimeoutErr) Temporary() bool { return true }
func (c *ocTimeoutConn) Read([]byte) (int, error) {
	time.Sleep(200 * time.Microsecond)
	return 0, ocTimeoutErr{}
}
func (c *ocTimeoutConn) Write(p []byte) (int, error) { return len(p), nil }
func (c *ocTimeoutConn) Close() error                { return nil }

func (o *oracle) closeWithTimingOutReads() {
	o.cases++
	c, err := NewClient(&ocTimeoutConn{}, WithNoConnClose(), WithRTO(time.Hour))
	if err != nil {
		o.failf("NewClient: %v", err)
		return
	}
	time.Sleep(5 * time.Millisecond) // the reader is going round its loop on timeout errors
	done := make(chan error, 1)
	go func() { done <- c.Close() }()
	select {
	case <-done:
	case <-time.After(5 * time.Second):
		o.failf("history [NewClient(WithNoConnClose) on a connection whose Read keeps returning a timeout error; Close]: Close did not return within 5 s - the reader goroutine never looks at the stop channel")
	}
}

func TestOracleC15(t *testing.T) {
	o := newOracle(t)
	o.closeWithTimingOutReads()
	for _, noClose := range []bool{false, true} {
		for _, h := range []string{"c", "cc", "sc", "scc", "sTc", "srcs", "sSc", "csS", "swc", "sc" + "s"} {
			w := newOcWorld(o, 2, 100*time.Millisecond, noClose, true)
			if w != nil {
				o.cases++
				w.run(h, []int{20})
			}
		}
	}
	// connection / agent close errors are carried in a CloseErr
	{
		o.cases++
		w := newOcWorld(o, 2, 100*time.Millisecond, false, false)
		w.conn.closeErr = errors.New("oracle: conn close error")
		err := w.client.Close()
		var ce CloseErr
		if !errors.As(err, &ce) || ce.ConnectionErr == nil || ce.AgentErr != nil {
			o.failf("Close with a failing connection Close returned %v, expected a CloseErr carrying the connection error", err)
		}
		if err2 := w.client.Close(); !errors.Is(err2, ErrClientClosed) {
			o.failf("second Close after a CloseErr returned %v, expected ErrClientClosed", err2)
		}
	}
	o.clientHistories("sSrTwcc", 4, 100000)
}
