package stun

import (
	"bytes"
	"fmt"
	"net"
	"os"
	"os/exec"
	"runtime/debug"
	"strconv"
	"strings"
	"testing"
	"time"
)

const uriAlphabet = "a1.:[]?=&%/@#-+ \x00é"

// uriCandidates: every string over the alphabet up to length n after each scheme prefix, plus grammar mutations.
func uriCandidates(o *oracle, maxLen int) []string {
	var out []string
	al := []rune(uriAlphabet)
	var rec func(prefix string, n int)
	rec = func(prefix string, n int) {
		out = append(out, prefix)
		if n == 0 {
			return
		}
		for _, c := range al {
			rec(prefix+string(c), n-1)
		}
	}
	for _, s := range []string{"stun:", "turns:"} {
		rec(s, maxLen)
	}
	hosts := []string{"example.org", "1.2.3.4", "[::1]", "[fe80::1%25eth0]", "[::1", "::1]", "[]", "a b", ""}
	ports := []string{"", ":", ":0", ":3478", ":65535", ":65536", ":99999", ":-1", ":+5", ":x", ":08"}
	queries := []string{"", "?", "?transport=udp", "?transport=tcp", "?transport=sctp", "?transport", "?transport=", "?transport=udp&x=1", "?x=1", "?transport=udp&transport=tcp", "#frag", "?transport=udp#f", "?%zz", "?transport=%", "?transport=udp;x", "?;", "?a;b=1"}
	for _, sc := range []string{"stun", "stuns", "turn", "turns", "http", ""} {
		for _, h := range hosts {
			for _, p := range ports {
				for _, q := range queries {
					out = append(out, sc+":"+h+p+q)
				}
			}
		}
	}
	for i := 0; i < 200; i++ {
		b := o.randBytes(o.rng.Intn(40))
		out = append(out, []string{"stun:", "turn:", "stuns:", "turns:"}[o.rng.Intn(4)]+string(b))
	}
	out = append(out, "stun:"+strings.Repeat("[", 5000), "turn:"+strings.Repeat("a:", 3000), "stun:"+strings.Repeat("%", 10000))
	return out
}

// TestOracleC16Child parses the candidates listed in the environment, printing each index first.
func TestOracleC16Child(t *testing.T) {
	lo, _ := strconv.Atoi(os.Getenv("ORACLE_C16_LO"))
	hi, _ := strconv.Atoi(os.Getenv("ORACLE_C16_HI"))
	if hi == 0 {
		t.Skip("child only")
	}
	debug.SetMaxStack(16 << 20)
	o := newOracle(t)
	o.deadline = time.Now().Add(time.Hour)
	cands := uriCandidates(o, 3)
	for i := lo; i < hi && i < len(cands); i++ {
		fmt.Printf("C16-IDX %d\n", i)
		start := time.Now()
		func() {
			defer func() {
				if r := recover(); r != nil {
					fmt.Printf("C16-PANIC %d %v\n", i, r)
				}
			}()
			_, _ = ParseURI(cands[i])
		}()
		if d := time.Since(start); d > 2*time.Second {
			fmt.Printf("C16-SLOW %d %v\n", i, d)
		}
	}
}

// TestOracleC16: ParseURI returns (no crash, no panic, no runaway recursion) on every candidate; crashes are
// fatal to the process, so the candidates are parsed in child processes and a crash is bisected to its input.
func TestOracleC16(t *testing.T) {
	o := newOracle(t)
	cands := uriCandidates(o, 3)
	o.cases = len(cands)
	const batch = 4000
	for lo := 0; lo < len(cands) && o.fails < 3; lo += batch {
		hi := lo + batch
		cmd := exec.Command(os.Args[0], "-test.run=^TestOracleC16Child$", "-test.v")
		cmd.Env = append(os.Environ(), fmt.Sprintf("ORACLE_C16_LO=%d", lo), fmt.Sprintf("ORACLE_C16_HI=%d", hi))
		out, err := cmd.CombinedOutput()
		s := string(out)
		last := -1
		for _, l := range strings.Split(s, "\n") {
			if strings.HasPrefix(l, "C16-IDX ") {
				last, _ = strconv.Atoi(strings.TrimPrefix(l, "C16-IDX "))
			}
			if strings.HasPrefix(l, "C16-PANIC ") {
				f := strings.SplitN(l, " ", 3)
				i, _ := strconv.Atoi(f[1])
				o.failf("ParseURI(%q) panics: %s", cands[i], f[2])
			}
			if strings.HasPrefix(l, "C16-SLOW ") {
				f := strings.SplitN(l, " ", 3)
				i, _ := strconv.Atoi(f[1])
				o.failf("ParseURI(%q) took %s", cands[i], f[2])
			}
		}
		if err != nil && !strings.Contains(s, "C16-PANIC") && last >= 0 && !strings.Contains(s, "\nPASS") {
			reason := "process crashed"
			if strings.Contains(s, "stack exceeds") || strings.Contains(s, "stack overflow") {
				reason = "unbounded recursion: fatal stack overflow"
			}
			o.failf("ParseURI(%q): %s", cands[last], reason)
			lo = last + 1 - batch // continue after the crashing input
		}
	}
}

// ---- C17 ----

type refURI struct {
	scheme, host string
	port         int
	proto        string
}

// refParseURI: RFC 7064 / 7065 for the grammar subset scheme ":" host [":" port] ["?transport=" ("udp"|"tcp")].
func refParseURI(scheme, host, port, query string) (refURI, bool) {
	u := refURI{scheme: scheme, host: strings.Trim(host, "[]")}
	switch scheme {
	case "stun", "turn":
		u.port = 3478
	case "stuns", "turns":
		u.port = 5349
	default:
		return u, false
	}
	if port != "" {
		p, err := strconv.Atoi(port)
		if err != nil || p < 0 || p > 65535 {
			return u, false
		}
		u.port = p
	}
	secure := scheme == "stuns" || scheme == "turns"
	u.proto = "udp"
	if secure {
		u.proto = "tcp"
	}
	if query != "" {
		if scheme == "stun" || scheme == "stuns" {
			return u, false
		}
		if !strings.HasPrefix(query, "transport=") {
			return u, false
		}
		t := strings.TrimPrefix(query, "transport=")
		if t != "udp" && t != "tcp" {
			return u, false
		}
		u.proto = t
	}
	return u, u.host != ""
}

func (o *oracle) oracleURI() {
	hosts := []string{"example.org", "a.b-c.example", "1.2.3.4", "[::1]", "[2001:db8::1]", "x"}
	ports := []string{"", "0", "1", "3478", "5349", "65535", "65536", "99999", "-1", "x"}
	queries := []string{"", "transport=udp", "transport=tcp", "transport=sctp", "x=1", "transport=udp&x=1"}
	for _, sc := range []string{"stun", "stuns", "turn", "turns", "http"} {
		for _, h := range hosts {
			for _, p := range ports {
				for _, q := range queries {
					o.cases++
					raw := sc + ":" + h
					if p != "" {
						raw += ":" + p
					}
					if q != "" {
						raw += "?" + q
					}
					want, ok := refParseURI(sc, h, p, q)
					var got *URI
					var err error
					if o.guard("ParseURI("+raw+")", func() { got, err = ParseURI(raw) }) {
						continue
					}
					if (err == nil) != ok {
						o.failf("ParseURI(%q): error=%v, RFC 7064/7065 says accept=%v", raw, err, ok)
						continue
					}
					if err != nil {
						continue
					}
					if got.Scheme.String() != want.scheme || got.Host != want.host || got.Port != want.port || got.Proto.String() != want.proto {
						o.failf("ParseURI(%q) = {%s %s %d %s}, RFC 7064/7065 gives {%s %s %d %s}", raw, got.Scheme, got.Host, got.Port, got.Proto, want.scheme, want.host, want.port, want.proto)
					}
					if got.Port < 0 || got.Port > 65535 {
						o.failf("ParseURI(%q) accepted port %d", raw, got.Port)
					}
					again, err2 := ParseURI(got.String())
					if err2 != nil || *again != *got {
						o.failf("ParseURI(%q).String() = %q does not parse back to the same URI (%v, %v)", raw, got.String(), again, err2)
					}
				}
			}
		}
	}
}

// oracleURIAccepted: what the property demands of EVERY accepted URI, whatever the input string looked like
// (no reference parser involved): known scheme and transport, non-empty host, port in range, and the
// format/parse round trip.
func (o *oracle) oracleURIAccepted() {
	for _, raw := range uriCandidates(o, 3) {
		if o.fails >= 3 {
			return
		}
		o.cases++
		var u *URI
		var err error
		if o.guard(fmt.Sprintf("ParseURI(%q)", raw), func() { u, err = ParseURI(raw) }) || err != nil || u == nil {
			continue
		}
		if u.Scheme < SchemeTypeSTUN || u.Scheme > SchemeTypeTURNS || (u.Proto != ProtoTypeUDP && u.Proto != ProtoTypeTCP) || u.Host == "" || u.Port < 0 || u.Port > 65535 {
			o.failf("ParseURI(%q) accepted {scheme %d host %q port %d proto %d}", raw, u.Scheme, u.Host, u.Port, u.Proto)
			continue
		}
		// RFC 7064: a stun / stuns URI has no query component at all
		if u.Scheme == SchemeTypeSTUN || u.Scheme == SchemeTypeSTUNS {
			if i := strings.IndexByte(raw, '?'); i >= 0 {
				q := raw[i+1:]
				if j := strings.IndexByte(q, '#'); j >= 0 {
					q = q[:j]
				}
				// a query made of separators only ("?", "?&") names no key at all and is tolerated
				if strings.Trim(q, "&") != "" {
					o.failf("ParseURI(%q) accepted a %s URI that carries the query %q", raw, u.Scheme, q)
					continue
				}
			}
		}
		var again *URI
		var err2 error
		str := u.String()
		if o.guard(fmt.Sprintf("ParseURI(%q)", str), func() { again, err2 = ParseURI(str) }) {
			continue
		}
		if err2 != nil || again == nil || *again != *u {
			o.failf("ParseURI(%q) = {%s %q %d %s}; its String() %q does not parse back to the same URI (got %v, %v)", raw, u.Scheme, u.Host, u.Port, u.Proto, str, again, err2)
		}
	}
}

// fakeNet records what DialURI dials.
type dialRec struct{ kind, network, addr string }

func (o *oracle) oracleDialURI() {
	for scheme := SchemeTypeUnknown; scheme <= SchemeTypeTURNS; scheme++ {
		for proto := ProtoTypeUnknown; proto <= ProtoTypeTCP; proto++ {
			o.cases++
			u := &URI{Scheme: scheme, Host: "127.0.0.1", Port: 1234, Proto: proto}
			fn := &oracleNet{}
			var c *Client
			var err error
			done := make(chan struct{})
			go func() {
				defer close(done)
				defer func() {
					if r := recover(); r != nil {
						err = fmt.Errorf("panic: %v", r)
					}
				}()
				c, err = DialURI(u, &DialConfig{Net: fn})
			}()
			select {
			case <-done:
			case <-time.After(5 * time.Second):
				o.failf("DialURI(%v/%v) did not return", scheme, proto)
				continue
			}
			if c != nil {
				go c.Close() //nolint
			}
			secure := scheme == SchemeTypeSTUNS || scheme == SchemeTypeTURNS
			wantNet := ""
			switch {
			case scheme == SchemeTypeSTUN:
				wantNet = "udp"
			case scheme == SchemeTypeTURN && proto == ProtoTypeTCP:
				wantNet = "tcp"
			case scheme == SchemeTypeTURN:
				wantNet = "udp"
			case scheme == SchemeTypeTURNS && proto == ProtoTypeUDP:
				wantNet = "dtls-udp"
			case secure && proto == ProtoTypeTCP:
				wantNet = "tls-tcp"
			}
			got := ""
			for _, d := range fn.dials {
				got += d.kind + ":" + d.network + " "
			}
			got = strings.TrimSpace(got)
			switch wantNet {
			case "":
				if err == nil || len(fn.dials) > 0 {
					o.failf("DialURI(%v/%v): expected ErrUnsupportedURI and nothing dialled, got err=%v dials=%q", scheme, proto, err, got)
				}
			case "udp", "tcp":
				if got != "dial:"+wantNet {
					o.failf("DialURI(%v/%v) dialled %q, expected plain %s", scheme, proto, got, wantNet)
				}
			case "dtls-udp":
				if got != "dialudp:udp" {
					o.failf("DialURI(%v/%v) dialled %q, expected DTLS over DialUDP", scheme, proto, got)
				}
			case "tls-tcp":
				if got != "dial:tcp" || (c != nil && !fn.wrappedTLS(c)) {
					o.failf("DialURI(%v/%v) dialled %q (TLS wrapped: %v), expected TLS over TCP", scheme, proto, got, c != nil && fn.wrappedTLS(c))
				}
			}
			if secure && c != nil && fn.plain(c) {
				o.failf("DialURI(%v/%v): a secure scheme was handed the plaintext connection", scheme, proto)
			}
			for _, d := range fn.dials {
				if d.addr != net.JoinHostPort("127.0.0.1", "1234") && d.addr != "" {
					o.failf("DialURI(%v/%v) dialled address %q", scheme, proto, d.addr)
				}
			}
		}
	}
}

// oracleDialSequence: one DialConfig reused for several secure dials (and one with a preset ServerName): every
// dial must present ITS host as the TLS/DTLS server name (visible in clear in the ClientHello the client writes
// to the injected connection).
func (o *oracle) oracleDialSequence() {
	type step struct {
		scheme SchemeType
		proto  ProtoType
		host   string
	}
	seqs := [][]step{
		{{SchemeTypeSTUNS, ProtoTypeTCP, "first.example"}, {SchemeTypeSTUNS, ProtoTypeTCP, "second.example"}},
		{{SchemeTypeTURNS, ProtoTypeTCP, "first.example"}, {SchemeTypeSTUNS, ProtoTypeTCP, "second.example"}, {SchemeTypeTURNS, ProtoTypeTCP, "third.example"}},
		{{SchemeTypeTURNS, ProtoTypeUDP, "127.0.0.1"}, {SchemeTypeTURNS, ProtoTypeUDP, "127.0.0.2"}}, // DialURI resolves DTLS peers with the system resolver: literals only
	}
	for _, preset := range []string{"", "preset.example"} {
		for _, seq := range seqs {
			cfg := &DialConfig{}
			cfg.TLSConfig.ServerName = preset
			cfg.DTLSConfig.ServerName = preset
			cfg.TLSConfig.InsecureSkipVerify = true //nolint
			cfg.DTLSConfig.InsecureSkipVerify = true
			for i, st := range seq {
				o.cases++
				fn := &oracleNet{}
				cfg.Net = fn
				u := &URI{Scheme: st.scheme, Host: st.host, Port: 5349, Proto: st.proto}
				var c *Client
				var err error
				done := make(chan struct{})
				go func() {
					defer close(done)
					defer func() {
						if r := recover(); r != nil {
							err = fmt.Errorf("panic: %v", r)
						}
					}()
					c, err = DialURI(u, cfg)
				}()
				select {
				case <-done:
				case <-time.After(5 * time.Second):
					o.failf("DialURI(%v/%v %s) did not return", st.scheme, st.proto, st.host)
					continue
				}
				if err != nil || c == nil {
					o.failf("DialURI(%v/%v %s) step %d with a reused DialConfig: %v", st.scheme, st.proto, st.host, i, err)
					continue
				}
				// the client's reader goroutine starts the handshake: wait for the ClientHello
				var hello []byte
				for w := 0; w < 200; w++ {
					hello = fn.lastWritten()
					if len(hello) > 40 {
						break
					}
					time.Sleep(5 * time.Millisecond)
				}
				go c.Close() //nolint
				if len(hello) <= 40 {
					continue // no handshake bytes observed: nothing to compare (not a failure of the property)
				}
				if !bytes.Contains(hello, []byte(st.host)) {
					other := ""
					isIP := net.ParseIP(st.host) != nil // no server_name extension is sent for IP literals (RFC 6066 s3)
					for _, h := range []string{"first.example", "second.example", "third.example", "preset.example", "127.0.0.1", "127.0.0.2"} {
						if h != st.host && bytes.Contains(hello, []byte(h)) {
							other = h
						}
					}
					if isIP && other == "" {
						continue
					}
					o.failf("DialURI(%v/%v host %q), step %d of a sequence reusing one DialConfig (preset ServerName %q): the ClientHello does not name the URI host (it names %q)",
						st.scheme, st.proto, st.host, i, preset, other)
				}
			}
		}
	}
}

func TestOracleC17(t *testing.T) {
	o := newOracle(t)
	o.oracleURI()
	o.oracleURIAccepted()
	o.oracleDialURI()
	o.oracleDialSequence()
}
