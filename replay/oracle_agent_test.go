package stun

import (
	"errors"
	"fmt"
	"math"
	"sort"
	"sync"
	"testing"
	"time"
)

type modelAgent struct {
	closed bool
	t      map[[12]byte]time.Time
}

type evRec struct {
	id  [12]byte
	err error
	msg *Message
}

// oracleAgent: C13 - random call sequences against the abstract transaction table.
func (o *oracle) oracleAgent() {
	base := time.Unix(1000, 0)
	for o.more() {
		o.cases++
		var events []evRec
		a := NewAgent(func(e Event) { events = append(events, evRec{e.TransactionID, e.Error, e.Message}) })
		md := &modelAgent{t: map[[12]byte]time.Time{}}
		ids := make([][12]byte, 4)
		for i := range ids {
			ids[i][0] = byte(i + 1)
			if i == 3 {
				ids[i] = ids[0]
				ids[i][11] = 1 // differs from ids[0] in one bit
			}
		}
		trace := ""
		for step, n := 0, 4+o.rng.Intn(20); step < n; step++ {
			id := ids[o.rng.Intn(len(ids))]
			tm := base.Add(time.Duration(o.rng.Intn(5)) * time.Second)
			events = events[:0]
			var want []evRec
			var err, wantErr error
			switch op := o.rng.Intn(12); {
			case op < 4:
				trace += fmt.Sprintf(" Start(%x,%d)", id[:1], tm.Unix()-1000)
				err = a.Start(id, tm)
				switch {
				case md.closed:
					wantErr = ErrAgentClosed
				case func() bool { _, ok := md.t[id]; return ok }():
					wantErr = ErrTransactionExists
				default:
					md.t[id] = tm
				}
			case op < 6:
				trace += fmt.Sprintf(" Stop(%x)", id[:1])
				err = a.Stop(id)
				switch {
				case md.closed:
					wantErr = ErrAgentClosed
				case func() bool { _, ok := md.t[id]; return !ok }():
					wantErr = ErrTransactionNotExists
				default:
					delete(md.t, id)
					want = []evRec{{id, ErrTransactionStopped, nil}}
				}
			case op < 8:
				trace += fmt.Sprintf(" Process(%x)", id[:1])
				m := &Message{TransactionID: id}
				err = a.Process(m)
				if md.closed {
					wantErr = ErrAgentClosed
				} else {
					delete(md.t, id)
					want = []evRec{{id, nil, m}}
				}
			case op < 11:
				trace += fmt.Sprintf(" Collect(%d)", tm.Unix()-1000)
				err = a.Collect(tm)
				if md.closed {
					wantErr = ErrAgentClosed
				} else {
					for k, d := range md.t {
						if d.Before(tm) {
							delete(md.t, k)
							want = append(want, evRec{k, ErrTransactionTimeOut, nil})
						}
					}
				}
			default:
				trace += " Close"
				err = a.Close()
				if md.closed {
					wantErr = ErrAgentClosed
				} else {
					for k := range md.t {
						want = append(want, evRec{k, ErrAgentClosed, nil})
					}
					md.t = map[[12]byte]time.Time{}
					md.closed = true
				}
			}
			if !errors.Is(err, wantErr) && !(err == nil && wantErr == nil) {
				o.failf("agent history%s: returned %v, the transaction-table specification says %v", trace, err, wantErr)
				break
			}
			key := func(e evRec) string { return fmt.Sprintf("%x|%v|%p", e.id, e.err, e.msg) }
			var g, w []string
			for _, e := range events {
				g = append(g, key(e))
			}
			for _, e := range want {
				w = append(w, key(e))
			}
			sort.Strings(g)
			sort.Strings(w)
			if fmt.Sprint(g) != fmt.Sprint(w) {
				o.failf("agent history%s: events %v, specification %v", trace, g, w)
				break
			}
		}
	}
}

// oracleAgentMany: large tables - one Collect times out exactly the transactions whose deadline is strictly before t,
// however many there are, and Close reports exactly the rest.
func (o *oracle) oracleAgentMany() {
	base := time.Unix(1000, 0)
	for _, n := range []int{1, 7, 99, 100, 101, 137, 300, 1000} {
		if o.fails >= 3 {
			return
		}
		o.cases++
		got := map[[12]byte][]error{}
		a := NewAgent(func(e Event) { got[e.TransactionID] = append(got[e.TransactionID], e.Error) })
		expired := map[[12]byte]bool{}
		all := map[[12]byte]bool{}
		for i := 0; i < n; i++ {
			var id [12]byte
			id[0], id[1], id[2] = byte(i), byte(i>>8), 0x5a
			d := base.Add(time.Duration(o.rng.Intn(3)) * time.Second) // 0, 1 or 2 s
			if i%5 == 4 {
				d = base.Add(10 * time.Second) // some stay alive
			}
			if i%10 == 9 {
				// "never": far beyond what fits into 64-bit nanoseconds since 1970 (year 2554)
				d = time.Unix(0, 0).Add(math.MaxInt64).Add(math.MaxInt64)
			}
			if err := a.Start(id, d); err != nil {
				o.failf("agent with %d transactions: Start returned %v", n, err)
				return
			}
			all[id] = true
			if d.Before(base.Add(2 * time.Second)) {
				expired[id] = true
			}
		}
		if err := a.Collect(base.Add(2 * time.Second)); err != nil {
			o.failf("agent with %d transactions: Collect returned %v", n, err)
		}
		nTimeout := 0
		for id, errs := range got {
			if !expired[id] || len(errs) != 1 || !errors.Is(errs[0], ErrTransactionTimeOut) {
				o.failf("agent with %d transactions (%d expired): Collect(t) reported %v for %x (expired before t: %v)", n, len(expired), errs, id[:3], expired[id])
				break
			}
			nTimeout++
		}
		if nTimeout != len(expired) {
			o.failf("agent with %d transactions registered, %d of them with a deadline before t: one Collect(t) emitted %d timeouts", n, len(expired), nTimeout)
		}
		_ = a.Close()
		for id := range all {
			errs := got[id]
			if len(errs) != 1 {
				o.failf("agent with %d transactions: %x received %d terminal events after Collect and Close: %v", n, id[:3], len(errs), errs)
				break
			}
			if !expired[id] && !errors.Is(errs[0], ErrAgentClosed) {
				o.failf("agent with %d transactions: live transaction %x got %v instead of the closed event", n, id[:3], errs[0])
				break
			}
		}
	}
}

// oracleAgentConcurrent: C14 - overlapping calls; every registered transaction gets exactly one terminal event, no deadlock.
func (o *oracle) oracleAgentConcurrent() {
	for o.more() {
		o.cases++
		var mu sync.Mutex
		terminal := map[[12]byte]int{}
		var a *Agent
		a = NewAgent(func(e Event) {
			mu.Lock()
			terminal[e.TransactionID]++
			mu.Unlock()
			if e.Error != ErrAgentClosed { //nolint:errorlint
				_ = a.Stop(e.TransactionID) // re-entrancy outside Close must not deadlock
			}
		})
		base := time.Unix(1000, 0)
		var started sync.Map
		var wg sync.WaitGroup
		done := make(chan struct{})
		for g := 0; g < 6; g++ {
			wg.Add(1)
			go func(g int) {
				defer wg.Done()
				for i := 0; i < 60; i++ {
					var id [12]byte
					id[0], id[1] = byte((g*7+i)%5), 1
					switch (g + i) % 5 {
					case 0, 1:
						if a.Start(id, base.Add(time.Duration(i%3)*time.Second)) == nil {
							v, _ := started.LoadOrStore(id, new(int))
							mu.Lock()
							*(v.(*int))++
							mu.Unlock()
						}
					case 2:
						_ = a.Stop(id)
					case 3:
						_ = a.Collect(base.Add(2 * time.Second))
					case 4:
						_ = a.Process(&Message{TransactionID: id})
					}
				}
			}(g)
		}
		go func() { wg.Wait(); close(done) }()
		select {
		case <-done:
		case <-time.After(10 * time.Second):
			o.failf("agent: 6 goroutines issuing Start/Stop/Collect/Process did not finish within 10s (deadlock)")
			return
		}
		_ = a.Close()
		mu.Lock()
		started.Range(func(k, v interface{}) bool {
			id := k.([12]byte)
			// Process emits an event whether or not the id is registered, so only a lower bound is exact here
			if terminal[id] < *(v.(*int)) {
				o.failf("agent (concurrent): transaction %x registered %d times but only %d events", id[:2], *(v.(*int)), terminal[id])
			}
			return true
		})
		mu.Unlock()
	}
}

func TestOracleC13(t *testing.T) { o := newOracle(t); o.oracleAgentMany(); o.oracleAgent() }
func TestOracleC14(t *testing.T) {
	o := newOracle(t)
	o.deadline = o.deadline.Add(-oracleBudget() / 2)
	o.oracleAgentMany()
	o.oracleAgent()
	o.deadline = o.deadline.Add(oracleBudget() / 2)
	o.oracleAgentConcurrent()
}

// C19: the complete domain.
func TestOracleC19(t *testing.T) {
	o := newOracle(t)
	for m := 0; m < 4096 && o.fails < 3; m++ {
		for c := 0; c < 4; c++ {
			got := NewType(Method(m), MessageClass(c)).Value()
			if got != refTypeValue(uint16(m), uint8(c)) {
				o.failf("MessageType{%#x,%d}.Value() = %#04x, RFC 5389 figure 3 gives %#04x", m, c, got, refTypeValue(uint16(m), uint8(c)))
			}
		}
	}
	for v := 0; v < 65536 && o.fails < 3; v++ {
		var mt MessageType
		mt.ReadValue(uint16(v))
		t14 := uint16(v) & 0x3fff
		wm := t14&0xf | (t14>>1)&0x70 | (t14>>2)&0xf80
		wc := uint8((t14>>4)&1 | (t14>>7)&2)
		if uint16(mt.Method) != wm || uint8(mt.Class) != wc {
			o.failf("ReadValue(%#04x) = method %#x class %d, RFC 5389 figure 3 gives %#x / %d", v, mt.Method, mt.Class, wm, wc)
		}
		if mt.Value() != t14 {
			o.failf("Value(ReadValue(%#04x)) = %#04x, want %#04x", v, mt.Value(), t14)
		}
	}
}
