// Oracle harness for replaying violations of the contract checks against the real code.
// These files are never part of /repo: the checker injects them with `go test -overlay`.
// Every oracle is written from the RFCs (5389, 2104, 7064/7065), not from the code under test.
// A failing case prints a line starting with "FAILING-INPUT:" and fails the test.
package stun

import (
	"encoding/binary"
	"fmt"
	"math/rand"
	"os"
	"strconv"
	"testing"
	"time"
)

func oracleSeed() int64 {
	if s := os.Getenv("ORACLE_SEED"); s != "" {
		if v, err := strconv.ParseInt(s, 10, 64); err == nil {
			return v
		}
	}
	return 1
}

func oracleBudget() time.Duration {
	if s := os.Getenv("ORACLE_BUDGET_MS"); s != "" {
		if v, err := strconv.Atoi(s); err == nil {
			return time.Duration(v) * time.Millisecond
		}
	}
	return 8 * time.Second
}

type oracle struct {
	t        *testing.T
	rng      *rand.Rand
	deadline time.Time
	fails    int
	cases    int
}

func newOracle(t *testing.T) *oracle {
	o := &oracle{t: t, rng: rand.New(rand.NewSource(oracleSeed())), deadline: time.Now().Add(oracleBudget())}
	t.Cleanup(func() { fmt.Printf("ORACLE-CASES: %d seed=%d\n", o.cases, oracleSeed()) })
	return o
}

func (o *oracle) more() bool { return time.Now().Before(o.deadline) && o.fails < 3 }

func (o *oracle) failf(format string, a ...interface{}) {
	o.fails++
	msg := fmt.Sprintf(format, a...)
	fmt.Printf("FAILING-INPUT: %s\n", msg)
	o.t.Errorf("%s", msg)
}

// guard runs f and reports a panic as a failure.
func (o *oracle) guard(what string, f func()) (panicked bool) {
	defer func() {
		if r := recover(); r != nil {
			panicked = true
			o.failf("%s: panic: %v", what, r)
		}
	}()
	f()
	return false
}

// ---- reference STUN parser (RFC 5389 section 6 and 15) ----

type refAttr struct {
	typ   uint16
	value []byte
	off   int // offset of the value in the message
}

type refMsg struct {
	method uint16
	class  uint8
	length int
	tid    [12]byte
	attrs  []refAttr
}

func refPad4(n int) int { return (n + 3) / 4 * 4 }

// refParse: accept iff >= 20 bytes, magic cookie, at least the declared body, body exactly a TLV sequence padded to 4.
func refParse(b []byte) (*refMsg, bool) {
	if len(b) < 20 {
		return nil, false
	}
	if binary.BigEndian.Uint32(b[4:8]) != 0x2112A442 {
		return nil, false
	}
	l := int(binary.BigEndian.Uint16(b[2:4]))
	if len(b) < 20+l {
		return nil, false
	}
	t := binary.BigEndian.Uint16(b[0:2]) & 0x3fff
	m := &refMsg{length: l}
	// figure 3: bits 0-3 M0-3, 4 C0, 5-7 M4-6, 8 C1, 9-13 M7-11
	m.method = t&0xf | (t>>1)&0x70 | (t>>2)&0xf80
	m.class = uint8((t>>4)&1 | (t>>7)&2)
	copy(m.tid[:], b[8:20])
	pos, end := 20, 20+l
	for pos < end {
		if pos+4 > end {
			return nil, false
		}
		typ := binary.BigEndian.Uint16(b[pos:])
		al := int(binary.BigEndian.Uint16(b[pos+2:]))
		if pos+4+refPad4(al) > end {
			return nil, false
		}
		if typ == 0x8020 {
			typ = 0x0020
		}
		m.attrs = append(m.attrs, refAttr{typ: typ, value: b[pos+4 : pos+4+al], off: pos + 4})
		pos += 4 + refPad4(al)
	}
	return m, true
}

func refTypeValue(method uint16, class uint8) uint16 {
	var v uint16
	for i := uint(0); i < 4; i++ {
		v |= (method >> i & 1) << i
	}
	v |= uint16(class&1) << 4
	for i := uint(4); i < 7; i++ {
		v |= (method >> i & 1) << (i + 1)
	}
	v |= uint16(class>>1&1) << 8
	for i := uint(7); i < 12; i++ {
		v |= (method >> i & 1) << (i + 2)
	}
	return v
}

// refBuild encodes a message from scratch.
func refBuild(method uint16, class uint8, tid [12]byte, attrs []refAttr) []byte {
	b := make([]byte, 20)
	binary.BigEndian.PutUint16(b[0:], refTypeValue(method, class))
	binary.BigEndian.PutUint32(b[4:], 0x2112A442)
	copy(b[8:], tid[:])
	for _, a := range attrs {
		h := make([]byte, 4)
		binary.BigEndian.PutUint16(h[0:], a.typ)
		binary.BigEndian.PutUint16(h[2:], uint16(len(a.value)))
		b = append(b, h...)
		b = append(b, a.value...)
		for len(b)%4 != 0 {
			b = append(b, 0)
		}
	}
	binary.BigEndian.PutUint16(b[2:], uint16(len(b)-20))
	return b
}

func (o *oracle) randBytes(n int) []byte {
	b := make([]byte, n)
	o.rng.Read(b)
	return b
}

// randMessage: a structurally valid random message.
func (o *oracle) randMessage(maxAttrs, maxLen int) ([]byte, []refAttr) {
	var tid [12]byte
	o.rng.Read(tid[:])
	n := o.rng.Intn(maxAttrs + 1)
	var attrs []refAttr
	types := []uint16{0x0001, 0x0006, 0x0008, 0x0009, 0x000A, 0x0014, 0x0015, 0x0020, 0x8022, 0x8023, 0x8028, 0x802b, 0x802c, 0x8020, 0x7777}
	for i := 0; i < n; i++ {
		l := o.rng.Intn(maxLen + 1)
		if o.rng.Intn(4) == 0 {
			l = o.rng.Intn(9)
		}
		attrs = append(attrs, refAttr{typ: types[o.rng.Intn(len(types))], value: o.randBytes(l)})
	}
	return refBuild(uint16(o.rng.Intn(0x1000)), uint8(o.rng.Intn(4)), tid, attrs), attrs
}

// inBuffer places data in a fresh buffer with the given spare capacity filled with a poison pattern.
func inBuffer(data []byte, spare int, poison byte) []byte {
	buf := make([]byte, len(data)+spare)
	for i := range buf {
		buf[i] = poison
	}
	copy(buf, data)
	return buf[:len(data)]
}

func hexs(b []byte) string {
	if len(b) > 96 {
		return fmt.Sprintf("%x...(%d bytes)", b[:96], len(b))
	}
	return fmt.Sprintf("%x", b)
}
