package stun

import (
	"bytes"
	"encoding/binary"
	"errors"
	"fmt"
	"testing"
)

// mutate corrupts a valid message in ways that matter for framing.
func (o *oracle) mutate(b []byte) []byte {
	c := append([]byte(nil), b...)
	switch o.rng.Intn(8) {
	case 0: // truncate
		if len(c) > 0 {
			c = c[:o.rng.Intn(len(c))]
		}
	case 1: // trailing bytes
		c = append(c, o.randBytes(1+o.rng.Intn(9))...)
	case 2: // header length off by -4..+4
		if len(c) >= 4 {
			l := int(binary.BigEndian.Uint16(c[2:4])) + o.rng.Intn(9) - 4
			if l < 0 {
				l = 0
			}
			binary.BigEndian.PutUint16(c[2:4], uint16(l))
		}
	case 3: // an attribute length field: 0xFFFF / off by 1..3
		if len(c) >= 24 {
			pos := 20
			vals := []int{0xffff, 0xfffd, 1, 2, 3, -1, -2, -3}
			d := vals[o.rng.Intn(len(vals))]
			l := int(binary.BigEndian.Uint16(c[pos+2:]))
			if d > 0x100 {
				l = d
			} else {
				l += d
			}
			if l < 0 {
				l = 0
			}
			binary.BigEndian.PutUint16(c[pos+2:], uint16(l))
		}
	case 4: // cookie
		if len(c) >= 8 {
			c[4+o.rng.Intn(4)] ^= 1 << uint(o.rng.Intn(8))
		}
	case 5: // leading type bits
		if len(c) >= 1 {
			c[0] |= 0xc0
		}
	case 6: // random bit
		if len(c) > 0 {
			c[o.rng.Intn(len(c))] ^= 1 << uint(o.rng.Intn(8))
		}
	}
	return c
}

func (o *oracle) checkDecoded(what string, in []byte, m *Message, err error) {
	ref, ok := refParse(in)
	if (err == nil) != ok {
		o.failf("%s: input %s: decoder error=%v but RFC 5389 framing says accept=%v", what, hexs(in), err, ok)
		return
	}
	if err != nil {
		return
	}
	if !IsMessage(in) {
		o.failf("%s: input %s decodes but IsMessage is false", what, hexs(in))
	}
	if !bytes.Equal(m.Raw, in) {
		o.failf("%s: Raw differs from input %s", what, hexs(in))
		return
	}
	if uint16(m.Type.Method) != ref.method || uint8(m.Type.Class) != ref.class || int(m.Length) != ref.length || m.TransactionID != ref.tid {
		o.failf("%s: input %s: header fields %v/%d/%x differ from reference %d.%d/%d/%x", what, hexs(in), m.Type, m.Length, m.TransactionID, ref.method, ref.class, ref.length, ref.tid)
	}
	if len(m.Attributes) != len(ref.attrs) {
		o.failf("%s: input %s: %d attributes, reference parse has %d", what, hexs(in), len(m.Attributes), len(ref.attrs))
		return
	}
	for i, a := range m.Attributes {
		r := ref.attrs[i]
		if uint16(a.Type) != r.typ || int(a.Length) != len(r.value) || !bytes.Equal(a.Value, r.value) {
			o.failf("%s: input %s: attribute %d = (%x,%d,%x), reference (%x,%d,%x)", what, hexs(in), i, uint16(a.Type), a.Length, a.Value, r.typ, len(r.value), r.value)
			continue
		}
		// a view of exactly the declared bytes inside the message's own body
		if len(a.Value) > 0 && (&a.Value[0] != &m.Raw[r.off]) {
			o.failf("%s: input %s: attribute %d value is not a view of Raw[%d:]", what, hexs(in), i, r.off)
		}
	}
}

// oracleDecode: C01/C02 - every decoding entry point on valid, mutated and random inputs, exact and spare capacity.
func (o *oracle) oracleDecode() {
	for o.more() {
		o.cases++
		in, _ := o.randMessage(5, 40)
		switch o.rng.Intn(4) {
		case 0:
		case 1, 2:
			in = o.mutate(in)
		case 3:
			in = o.randBytes(o.rng.Intn(64))
		}
		spare := 0
		if o.rng.Intn(2) == 0 {
			spare = 1 + o.rng.Intn(64)
		}
		buf := inBuffer(in, spare, 0xA5)
		entry := o.rng.Intn(6)
		m := new(Message)
		if o.rng.Intn(2) == 0 { // reused message with stale state
			prev, _ := o.randMessage(4, 20)
			_ = Decode(prev, m)
		}
		var err error
		what := ""
		o.guard(fmt.Sprintf("decode entry %d on %s (spare %d)", entry, hexs(in), spare), func() {
			switch entry {
			case 0:
				what = "Decode"
				err = Decode(buf, m)
			case 1:
				what = "Message.Decode"
				m.Raw = buf
				err = m.Decode()
			case 2:
				what = "Write"
				_, err = m.Write(buf)
			case 3:
				what = "UnmarshalBinary"
				err = m.UnmarshalBinary(buf)
			case 4:
				what = "GobDecode"
				err = m.GobDecode(buf)
			case 5:
				what = "CloneTo"
				src := &Message{Raw: buf}
				err = src.CloneTo(m)
			}
		})
		o.checkDecoded(what, in, m, err)
		if err == nil && entry != 1 {
			// copy semantics: overwriting the caller's buffer must not change the message
			for i := range buf {
				buf[i] = 0xEE
			}
			if !bytes.Equal(m.Raw, in) {
				o.failf("%s: message changed when the caller overwrote its input buffer (input %s)", what, hexs(in))
			}
		}
	}
}

// oracleLookup: C02 - Get is the first attribute of a type, Contains is membership, ForEach visits all in order and restores.
func (o *oracle) oracleLookup() {
	for o.more() {
		o.cases++
		in, _ := o.randMessage(8, 12)
		m := new(Message)
		if err := Decode(in, m); err != nil {
			o.failf("valid message %s does not decode: %v", hexs(in), err)
			continue
		}
		ref, _ := refParse(in)
		for _, t := range []uint16{0x0001, 0x0006, 0x0020, 0x8022, 0x7777, 0x1234} {
			var first *refAttr
			var all []int
			for i := range ref.attrs {
				if ref.attrs[i].typ == t {
					if first == nil {
						first = &ref.attrs[i]
					}
					all = append(all, i)
				}
			}
			v, err := m.Get(AttrType(t))
			if (err == nil) != (first != nil) || (first != nil && !bytes.Equal(v, first.value)) {
				o.failf("Get(%#x) on %s: got (%x,%v), reference first value %v", t, hexs(in), v, err, first)
			}
			if m.Contains(AttrType(t)) != (first != nil) {
				o.failf("Contains(%#x) on %s disagrees with the reference parse", t, hexs(in))
			}
			failAt := -1
			if len(all) > 0 && o.rng.Intn(2) == 0 {
				failAt = o.rng.Intn(len(all))
			}
			var seen []int
			before := append(Attributes(nil), m.Attributes...)
			boom := errors.New("callback failed")
			err = m.ForEach(AttrType(t), func(mm *Message) error {
				idx := len(before) - len(mm.Attributes)
				seen = append(seen, idx)
				if len(seen)-1 == failAt {
					return boom
				}
				return nil
			})
			want := all
			if failAt >= 0 {
				want = all[:failAt+1]
				if err != boom {
					o.failf("ForEach(%#x) on %s: callback error not returned (got %v)", t, hexs(in), err)
				}
			}
			if fmt.Sprint(seen) != fmt.Sprint(want) {
				o.failf("ForEach(%#x) on %s visited %v, reference %v", t, hexs(in), seen, want)
			}
			if len(m.Attributes) != len(before) || (len(before) > 0 && &m.Attributes[0] != &before[0] && !attrsSame(m.Attributes, before)) {
				o.failf("ForEach(%#x) on %s (callback failing at match %d) left %d attributes, had %d", t, hexs(in), failAt, len(m.Attributes), len(before))
			}
		}
	}
}

func attrsSame(a, b Attributes) bool {
	if len(a) != len(b) {
		return false
	}
	for i := range a {
		if a[i].Type != b[i].Type || !bytes.Equal(a[i].Value, b[i].Value) {
			return false
		}
	}
	return true
}

// wellFormed: C03 - raw bytes are a well-formed message that decodes to exactly the struct.
func (o *oracle) wellFormed(what string, m *Message) {
	raw := m.Raw
	ref, ok := refParse(raw)
	if !ok {
		o.failf("%s: raw bytes %s are not a well-formed message", what, hexs(raw))
		return
	}
	if ref.length != len(raw)-20 || ref.length%4 != 0 {
		o.failf("%s: header length %d but %d bytes after the header (%s)", what, ref.length, len(raw)-20, hexs(raw))
	}
	if uint16(m.Type.Method) != ref.method || uint8(m.Type.Class) != ref.class || m.TransactionID != ref.tid || int(m.Length) != ref.length {
		o.failf("%s: struct header %v/%x/%d differs from wire %d.%d/%x/%d", what, m.Type, m.TransactionID, m.Length, ref.method, ref.class, ref.tid, ref.length)
	}
	if len(ref.attrs) != len(m.Attributes) {
		o.failf("%s: %d attributes in the struct, %d on the wire (%s)", what, len(m.Attributes), len(ref.attrs), hexs(raw))
		return
	}
	for i, a := range m.Attributes {
		r := ref.attrs[i]
		wantT := uint16(a.Type)
		if wantT == 0x8020 {
			wantT = 0x0020 // the legacy alias decodes as XOR-MAPPED-ADDRESS (known, by design)
		}
		if wantT != r.typ || !bytes.Equal(a.Value, r.value) {
			o.failf("%s: attribute %d struct (%x,%x) vs wire (%x,%x)", what, i, uint16(a.Type), a.Value, r.typ, r.value)
		}
		// zero padding
		end := r.off + len(r.value)
		for p := end; p < r.off+refPad4(len(r.value)); p++ {
			if raw[p] != 0 {
				o.failf("%s: padding byte %d of attribute %d is %#x, not zero (%s)", what, p, i, raw[p], hexs(raw))
			}
		}
	}
	// decode(encode) == identity on content
	d := new(Message)
	if err := Decode(raw, d); err != nil {
		o.failf("%s: re-decoding %s fails: %v", what, hexs(raw), err)
		return
	}
	has8020 := false
	for _, a := range m.Attributes {
		if a.Type == 0x8020 {
			has8020 = true
		}
	}
	if !has8020 && !m.Equal(d) {
		o.failf("%s: Equal(decode(raw)) is false for %s", what, hexs(raw))
	}
}

// oracleBuild: C03/C08 - random sequences of building operations on fresh, reused and poisoned messages.
func (o *oracle) oracleBuild() {
	for o.more() {
		o.cases++
		m := new(Message)
		switch o.rng.Intn(3) {
		case 1: // poisoned buffer with odd capacity
			c := 20 + o.rng.Intn(80)
			m.Raw = inBuffer(nil, c, 0xA5)[:0]
		case 2: // previously used
			prev, _ := o.randMessage(5, 30)
			_ = Decode(prev, m)
		}
		var tid [12]byte
		o.rng.Read(tid[:])
		typ := NewType(Method(o.rng.Intn(0x1000)), MessageClass(o.rng.Intn(4)))
		if err := m.Build(typ, NewTransactionIDSetter(tid)); err != nil {
			o.failf("Build(type, tid) failed: %v", err)
			continue
		}
		var want []refAttr
		steps := o.rng.Intn(7)
		trace := ""
		for s := 0; s < steps; s++ {
			l := o.rng.Intn(24)
			if o.rng.Intn(8) == 0 {
				l = 200 + o.rng.Intn(3000)
			}
			v := o.randBytes(l)
			at := []uint16{0x0006, 0x0014, 0x7777, 0x8022, 0x0001, 0x8028, 0x0008, 0x0020}[o.rng.Intn(8)] // incl. FINGERPRINT / MESSAGE-INTEGRITY typed attributes in the middle of a message
			vv := append([]byte(nil), v...)
			o.guard("Add", func() { m.Add(AttrType(at), vv) })
			for i := range vv { // Add copies
				vv[i] = 0xEE
			}
			want = append(want, refAttr{typ: at, value: v})
			trace += fmt.Sprintf(" Add(%#x,%d)", at, l)
			if o.rng.Intn(4) == 0 {
				typ = NewType(Method(o.rng.Intn(0x1000)), MessageClass(o.rng.Intn(4)))
				m.SetType(typ)
				trace += " SetType"
			}
		}
		what := "Build+" + trace
		o.wellFormed(what, m)
		fresh := refBuild(uint16(typ.Method), uint8(typ.Class), tid, want)
		if !bytes.Equal(m.Raw, fresh) {
			o.failf("%s: raw %s differs from a fresh encoding %s (stale data?)", what, hexs(m.Raw), hexs(fresh))
		}
		// decode-then-encode reproduces the canonical bytes
		d := new(Message)
		if o.rng.Intn(2) == 0 {
			prev, _ := o.randMessage(5, 30)
			_ = Decode(prev, d)
		}
		if err := Decode(fresh, d); err == nil {
			o.guard("Encode", func() { d.Encode() })
			if !bytes.Equal(d.Raw, fresh) {
				o.failf("%s: decode-then-Encode gives %s, canonical bytes are %s", what, hexs(d.Raw), hexs(fresh))
			}
		}
		// extending a message that was decoded from a datagram with bytes after the declared length (tolerated by
		// Decode): the added attribute must land right after the declared body and the result must be well-formed
		{
			base, battrs := o.randMessage(3, 12)
			withTrail := append(append([]byte(nil), base...), o.randBytes(1+o.rng.Intn(9))...)
			e := new(Message)
			if err := Decode(withTrail, e); err == nil {
				v := o.randBytes(o.rng.Intn(10))
				o.guard("Add after decode", func() { e.Add(AttrType(0x7777), v) })
				// the tolerated alias 0x8020 decodes as 0x0020 in the struct only; the wire bytes are kept
				wantAttrs := append(append([]refAttr(nil), battrs...), refAttr{typ: 0x7777, value: v})
				r0, _ := refParse(base)
				canon := refBuild(r0.method, r0.class, r0.tid, wantAttrs)
				if !bytes.Equal(e.Raw, canon) {
					o.failf("Decode(%d bytes + %d trailing) then Add(0x7777,%d): raw %s, expected the declared body followed by the new attribute %s", len(base), len(withTrail)-len(base), len(v), hexs(e.Raw), hexs(canon))
				}
			}
		}
		// Encode after a failed decode: header length must match the buffer
		bad := new(Message)
		if err := Decode(append(append([]byte(nil), fresh[:20]...), 1, 2, 3), bad); err != nil || true {
			junk := append([]byte(nil), fresh...)
			if len(junk) >= 24 {
				junk = junk[:len(junk)-1]
				if Decode(junk, bad) != nil {
					o.guard("Encode after failed decode", func() { bad.Encode() })
					if len(bad.Raw) >= 20 && int(binary.BigEndian.Uint16(bad.Raw[2:4])) != len(bad.Raw)-20 {
						o.failf("Encode after a failed decode: header length %d, %d bytes after the header", binary.BigEndian.Uint16(bad.Raw[2:4]), len(bad.Raw)-20)
					}
				}
			}
		}
		// MarshalBinary / CloneTo independence
		mb, _ := m.MarshalBinary()
		cl := new(Message)
		_ = m.CloneTo(cl)
		snap := append([]byte(nil), m.Raw...)
		for i := range m.Raw {
			m.Raw[i] ^= 0xff
		}
		if !bytes.Equal(mb, snap) || !bytes.Equal(cl.Raw, snap) {
			o.failf("%s: MarshalBinary/CloneTo results changed when the source was modified", what)
		}
	}
}

func TestOracleC01(t *testing.T) { o := newOracle(t); o.oracleDecode() }
func TestOracleC02(t *testing.T) {
	o := newOracle(t)
	o.deadline = o.deadline.Add(-oracleBudget() / 2)
	o.oracleDecode()
	o.deadline = o.deadline.Add(oracleBudget() / 2)
	o.oracleLookup()
}
func TestOracleC03(t *testing.T) { o := newOracle(t); o.oracleBuild() }
func TestOracleC08(t *testing.T) {
	o := newOracle(t)
	o.deadline = o.deadline.Add(-oracleBudget() / 2)
	o.oracleBuild()
	o.deadline = o.deadline.Add(oracleBudget() / 2)
	o.oracleDecode()
}
