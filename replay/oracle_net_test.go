package stun

import (
	"crypto/tls"
	"net"
	"sync"
	"time"

	"github.com/pion/transport/v3"
)

// oracleNet: an injected transport.Net that records dials and hands out in-memory connections.
type oracleNet struct {
	transport.Net
	mu    sync.Mutex
	dials []dialRec
	conns []net.Conn
}

type oracleConn struct {
	closed chan struct{}
	once   sync.Once
	remote net.Addr
	wmu    sync.Mutex
	wrote  []byte // everything written to the connection (the TLS/DTLS ClientHello carries the server name in clear)
}

func (c *oracleConn) record(p []byte) {
	c.wmu.Lock()
	c.wrote = append(c.wrote, p...)
	c.wmu.Unlock()
}

func (c *oracleConn) written() []byte {
	c.wmu.Lock()
	defer c.wmu.Unlock()
	return append([]byte(nil), c.wrote...)
}

func newOracleConn() *oracleConn {
	return &oracleConn{closed: make(chan struct{}), remote: &net.UDPAddr{IP: net.IPv4(127, 0, 0, 1), Port: 1234}}
}
func (c *oracleConn) Read(p []byte) (int, error)       { <-c.closed; return 0, net.ErrClosed }
func (c *oracleConn) Write(p []byte) (int, error)      { c.record(p); return len(p), nil }
func (c *oracleConn) Close() error                     { c.once.Do(func() { close(c.closed) }); return nil }
func (c *oracleConn) LocalAddr() net.Addr              { return &net.UDPAddr{IP: net.IPv4(127, 0, 0, 1), Port: 1} }
func (c *oracleConn) RemoteAddr() net.Addr             { return c.remote }
func (c *oracleConn) SetDeadline(time.Time) error      { return nil }
func (c *oracleConn) SetReadDeadline(time.Time) error  { return nil }
func (c *oracleConn) SetWriteDeadline(time.Time) error { return nil }

func (n *oracleNet) Dial(network, address string) (net.Conn, error) {
	n.mu.Lock()
	defer n.mu.Unlock()
	n.dials = append(n.dials, dialRec{"dial", network, address})
	c := newOracleConn()
	n.conns = append(n.conns, c)
	return c, nil
}

type oracleUDPConn struct {
	*oracleConn
}

func (c *oracleUDPConn) ReadFrom(p []byte) (int, net.Addr, error) {
	<-c.closed
	return 0, nil, net.ErrClosed
}
func (c *oracleUDPConn) WriteTo(p []byte, _ net.Addr) (int, error) { c.record(p); return len(p), nil }
func (c *oracleUDPConn) ReadFromUDP([]byte) (int, *net.UDPAddr, error) {
	<-c.closed
	return 0, nil, net.ErrClosed
}
func (c *oracleUDPConn) ReadMsgUDP(b, oob []byte) (int, int, int, *net.UDPAddr, error) {
	<-c.closed
	return 0, 0, 0, nil, net.ErrClosed
}
func (c *oracleUDPConn) WriteToUDP(b []byte, _ *net.UDPAddr) (int, error) {
	c.record(b)
	return len(b), nil
}
func (c *oracleUDPConn) SetReadBuffer(int) error  { return nil }
func (c *oracleUDPConn) SetWriteBuffer(int) error { return nil }
func (c *oracleUDPConn) WriteMsgUDP(b, oob []byte, _ *net.UDPAddr) (int, int, error) {
	return len(b), 0, nil
}

func (n *oracleNet) DialUDP(network string, _, raddr *net.UDPAddr) (transport.UDPConn, error) {
	n.mu.Lock()
	defer n.mu.Unlock()
	n.dials = append(n.dials, dialRec{"dialudp", network, ""})
	c := &oracleUDPConn{newOracleConn()}
	n.conns = append(n.conns, c)
	return c, nil
}

func (n *oracleNet) ResolveUDPAddr(network, address string) (*net.UDPAddr, error) {
	return &net.UDPAddr{IP: net.IPv4(127, 0, 0, 1), Port: 1234}, nil
}

// plain: the client talks directly over a connection we handed out (no TLS/DTLS wrapper).
func (n *oracleNet) plain(c *Client) bool {
	for _, cn := range n.conns {
		if conn, ok := c.c.(net.Conn); ok && conn == cn {
			return true
		}
		if uc, ok := cn.(*oracleUDPConn); ok {
			if conn, ok := c.c.(*oracleUDPConn); ok && conn == uc {
				return true
			}
		}
	}
	return false
}

func (n *oracleNet) wrappedTLS(c *Client) bool {
	_, ok := c.c.(*tls.Conn)
	return ok
}

// lastWritten: what was written so far to the most recently dialled connection.
func (n *oracleNet) lastWritten() []byte {
	n.mu.Lock()
	defer n.mu.Unlock()
	if len(n.conns) == 0 {
		return nil
	}
	switch c := n.conns[len(n.conns)-1].(type) {
	case *oracleConn:
		return c.written()
	case *oracleUDPConn:
		return c.written()
	}
	return nil
}
