package stun

import (
	"bytes"
	"crypto/hmac"
	"crypto/md5"  //nolint:gosec
	"crypto/sha1" //nolint:gosec
	"encoding/binary"
	"fmt"
	"hash/crc32"
	"testing"
)

// refMI: RFC 5389 section 15.4 - HMAC-SHA1 over the message up to the attribute, header length adjusted to end at it.
func refMI(key, raw []byte, attrOff int) []byte {
	b := append([]byte(nil), raw[:attrOff-4]...)
	binary.BigEndian.PutUint16(b[2:4], uint16(attrOff-4+24-20))
	h := hmac.New(sha1.New, key)
	h.Write(b)
	return h.Sum(nil)
}

func refFP(raw []byte) uint32 { return crc32.ChecksumIEEE(raw[:len(raw)-8]) ^ 0x5354554e }

func (o *oracle) snapshot(m *Message) (raw []byte, l uint32, n int) {
	return append([]byte(nil), m.Raw...), m.Length, len(m.Attributes)
}

func (o *oracle) unchanged(what string, m *Message, raw []byte, l uint32, n int) {
	if !bytes.Equal(m.Raw, raw) || m.Length != l || len(m.Attributes) != n {
		o.failf("%s changed the message: raw %s -> %s, Length %d -> %d, attributes %d -> %d", what, hexs(raw), hexs(m.Raw), l, m.Length, n, len(m.Attributes))
	}
}

// oracleIntegrity: C04
func (o *oracle) oracleIntegrity() {
	for o.more() {
		o.cases++
		key := o.randBytes(o.rng.Intn(201))
		before := o.rng.Intn(5)
		after := o.rng.Intn(4)
		m := new(Message)
		var tid [12]byte
		o.rng.Read(tid[:])
		_ = m.Build(NewType(Method(o.rng.Intn(0x1000)), MessageClass(o.rng.Intn(4))), NewTransactionIDSetter(tid))
		for i := 0; i < before; i++ {
			m.Add(AttrType([]uint16{0x0006, 0x0014, 0x7777}[o.rng.Intn(3)]), o.randBytes(o.rng.Intn(20)))
		}
		mode := o.rng.Intn(6)
		var macOff int
		switch mode {
		case 0, 1, 2: // signed by the library
			if err := MessageIntegrity(key).AddTo(m); err != nil {
				o.failf("MessageIntegrity.AddTo failed without FINGERPRINT: %v", err)
				continue
			}
			macOff = len(m.Raw) - 20
			if want := refMI(key, m.Raw, macOff); !bytes.Equal(m.Raw[macOff:], want) {
				o.failf("AddTo wrote MAC %x, RFC 5389 15.4 value is %x (key %x, message %s)", m.Raw[macOff:], want, key, hexs(m.Raw))
			}
		case 3: // wrong-length MAC value
			m.Add(AttrMessageIntegrity, o.randBytes([]int{0, 1, 4, 16, 19, 21, 24, 32}[o.rng.Intn(8)]))
		case 4: // random 20-byte MAC
			m.Add(AttrMessageIntegrity, o.randBytes(20))
		}
		for i := 0; i < after; i++ {
			m.Add(AttrType([]uint16{0x8022, 0x8028, 0x7777, 0x0008}[o.rng.Intn(4)]), o.randBytes(o.rng.Intn(13)))
		}
		raw := append([]byte(nil), m.Raw...)
		if o.rng.Intn(3) == 0 && len(raw) > 20 { // single bit flip
			raw[o.rng.Intn(len(raw))] ^= 1 << uint(o.rng.Intn(8))
		}
		d := new(Message)
		if Decode(inBuffer(raw, o.rng.Intn(40), 0x5A), d) != nil {
			continue
		}
		ref, _ := refParse(raw)
		checkKey := key
		if o.rng.Intn(4) == 0 {
			checkKey = o.randBytes(1 + o.rng.Intn(40))
		}
		var first *refAttr
		for i := range ref.attrs {
			if ref.attrs[i].typ == 0x0008 {
				first = &ref.attrs[i]
				break
			}
		}
		want := first != nil && len(first.value) == 20 && bytes.Equal(first.value, refMI(checkKey, raw, first.off))
		sr, sl, sn := o.snapshot(d)
		var err error
		o.guard(fmt.Sprintf("MessageIntegrity.Check on %s", hexs(raw)), func() { err = MessageIntegrity(checkKey).Check(d) })
		if (err == nil) != want {
			o.failf("Check(key %x) on %s: error=%v, RFC 5389 15.4 says valid=%v", checkKey, hexs(raw), err, want)
		}
		o.unchanged("MessageIntegrity.Check", d, sr, sl, sn)
	}
	// FINGERPRINT before MESSAGE-INTEGRITY must be refused, atomically, wherever the FINGERPRINT is
	for i := 0; i < 50; i++ {
		m := new(Message)
		_ = m.Build(BindingRequest, TransactionID)
		pos := o.rng.Intn(3)
		for k := 0; k < 3; k++ {
			if k == pos {
				_ = Fingerprint.AddTo(m)
			} else {
				m.Add(AttrSoftware, o.randBytes(o.rng.Intn(9)))
			}
		}
		sr, sl, sn := o.snapshot(m)
		if err := MessageIntegrity("k").AddTo(m); err == nil {
			o.failf("MessageIntegrity.AddTo accepted a message with FINGERPRINT at attribute %d", pos)
		}
		o.unchanged("refused MessageIntegrity.AddTo", m, sr, sl, sn)
	}
	// long-term key
	for i := 0; i < 50; i++ {
		u, r, p := string(o.printable(8)), string(o.printable(8)), string(o.printable(8))
		sum := md5.Sum([]byte(u + ":" + r + ":" + p)) //nolint:gosec
		if got := NewLongTermIntegrity(u, r, p); !bytes.Equal(got, sum[:]) {
			o.failf("NewLongTermIntegrity(%q,%q,%q) = %x, MD5(user:realm:pass) = %x", u, r, p, []byte(got), sum)
		}
	}
}

func (o *oracle) printable(n int) []byte {
	cs := []byte("abcXYZ019 %:/\\$#@!~é")
	b := make([]byte, n)
	for i := range b {
		b[i] = cs[o.rng.Intn(len(cs))]
	}
	return b
}

// oracleFingerprint: C05
func (o *oracle) oracleFingerprint() {
	for o.more() {
		o.cases++
		m := new(Message)
		_ = m.Build(NewType(Method(o.rng.Intn(0x1000)), MessageClass(o.rng.Intn(4))), TransactionID)
		for i, n := 0, o.rng.Intn(4); i < n; i++ {
			m.Add(AttrType([]uint16{0x0006, 0x8022, 0x7777}[o.rng.Intn(3)]), o.randBytes(o.rng.Intn(20)))
		}
		if o.rng.Intn(2) == 0 {
			_ = MessageIntegrity("key").AddTo(m)
		}
		mode := o.rng.Intn(5)
		switch mode {
		case 5: // a FINGERPRINT whose value is longer than 4 bytes but starts with the right CRC: not a valid fingerprint
			extra := 1 + o.rng.Intn(4)
			m.Add(AttrFingerprint, make([]byte, 4+extra))
			// the CRC covers everything before the last 8 raw bytes, with the final header length
			v := refFP(m.Raw)
			binary.BigEndian.PutUint32(m.Raw[len(m.Raw)-refPad4(4+extra):], v)
		case 4: // a wrong 4-byte FINGERPRINT first, then a correct one as the last attribute: the FIRST one decides
			m.Add(AttrFingerprint, o.randBytes(4))
			_ = Fingerprint.AddTo(m)
		case 0, 1:
			if err := Fingerprint.AddTo(m); err != nil {
				o.failf("Fingerprint.AddTo: %v", err)
				continue
			}
			if got := binary.BigEndian.Uint32(m.Raw[len(m.Raw)-4:]); got != refFP(m.Raw) {
				o.failf("Fingerprint.AddTo wrote %08x, CRC-32(all preceding bytes with the final header length) XOR 0x5354554e is %08x (%s)", got, refFP(m.Raw), hexs(m.Raw))
			}
			if err := Fingerprint.Check(m); err != nil {
				o.failf("freshly fingerprinted message fails the check: %v", err)
			}
		case 2: // FINGERPRINT of odd length / not last
			m.Add(AttrFingerprint, o.randBytes([]int{0, 3, 4, 5, 8}[o.rng.Intn(5)]))
			if o.rng.Intn(2) == 0 {
				m.Add(AttrSoftware, o.randBytes(4))
			}
		case 3: // correct value but followed by junk beyond the declared length
			_ = Fingerprint.AddTo(m)
		}
		raw := append([]byte(nil), m.Raw...)
		if mode == 3 {
			raw = append(raw, o.randBytes(1+o.rng.Intn(8))...)
		}
		if mode <= 1 && o.rng.Intn(2) == 0 { // a single-bit flip anywhere (also in the FINGERPRINT attribute's own type and length fields): judged like every other input, by the RFC reference below
			bit := o.rng.Intn(len(raw) * 8)
			if o.rng.Intn(3) == 0 && len(raw) >= 8 {
				bit = (len(raw)-8)*8 + o.rng.Intn(32) // the attribute header of the trailing FINGERPRINT
			}
			raw[bit/8] ^= 1 << uint(bit%8)
		}
		d := new(Message)
		if Decode(inBuffer(raw, o.rng.Intn(40), 0x5A), d) != nil {
			continue
		}
		ref, _ := refParse(raw)
		var first *refAttr
		for i := range ref.attrs {
			if ref.attrs[i].typ == 0x8028 {
				first = &ref.attrs[i]
				break
			}
		}
		want := first != nil && len(first.value) == 4 && len(raw) >= 8 && binary.BigEndian.Uint32(first.value) == refFP(raw)
		sr, sl, sn := o.snapshot(d)
		var err error
		o.guard(fmt.Sprintf("Fingerprint.Check on %s", hexs(raw)), func() { err = Fingerprint.Check(d) })
		if (err == nil) != want {
			o.failf("Fingerprint.Check on %s: error=%v, RFC 5389 15.5 says valid=%v", hexs(raw), err, want)
		}
		o.unchanged("Fingerprint.Check", d, sr, sl, sn)
	}
}

func TestOracleC04(t *testing.T) { o := newOracle(t); o.oracleIntegrity() }
func TestOracleC05(t *testing.T) { o := newOracle(t); o.oracleFingerprint() }
