package stun

import (
	"bytes"
	"encoding/binary"
	"fmt"
	"net"
	"testing"
)

// reference encoders (RFC 5389 section 15)
func refXorAddr(ip net.IP, port int, tid [12]byte) []byte {
	v := []byte{0, 1}
	if len(ip) == 16 {
		v[1] = 2
	}
	p := make([]byte, 2)
	binary.BigEndian.PutUint16(p, uint16(port)^0x2112)
	v = append(v, p...)
	key := append([]byte{0x21, 0x12, 0xA4, 0x42}, tid[:]...)
	for i := range ip {
		v = append(v, ip[i]^key[i])
	}
	return v
}

func refAddr(ip net.IP, port int) []byte {
	v := []byte{0, 1}
	if len(ip) == 16 {
		v[1] = 2
	}
	p := make([]byte, 2)
	binary.BigEndian.PutUint16(p, uint16(port))
	return append(append(v, p...), ip...)
}

func isMapped(ip net.IP) bool {
	if len(ip) != 16 {
		return false
	}
	for i := 0; i < 10; i++ {
		if ip[i] != 0 {
			return false
		}
	}
	return ip[10] == 0xff && ip[11] == 0xff
}

func (o *oracle) randIP() net.IP {
	switch o.rng.Intn(5) {
	case 0:
		return net.IP(o.randBytes(4))
	case 1:
		return net.IP(o.randBytes(16))
	case 2: // IPv4-mapped
		ip := make(net.IP, 16)
		ip[10], ip[11] = 0xff, 0xff
		copy(ip[12:], o.randBytes(4))
		return ip
	case 3: // nearly mapped: bytes 8/9 non-zero
		ip := make(net.IP, 16)
		ip[8+o.rng.Intn(2)] = byte(1 + o.rng.Intn(255))
		ip[10], ip[11] = 0xff, 0xff
		copy(ip[12:], o.randBytes(4))
		return ip
	}
	ip := net.IP(o.randBytes(16))
	copy(ip[:8], make([]byte, 8))
	return ip
}

func lastAttr(m *Message) ([]byte, uint16) {
	r, ok := refParse(m.Raw)
	if !ok || len(r.attrs) == 0 {
		return nil, 0
	}
	a := r.attrs[len(r.attrs)-1]
	return a.value, a.typ
}

// oracleRoundTrip: C06
func (o *oracle) oracleRoundTrip() {
	for o.more() {
		o.cases++
		m := new(Message)
		var tid [12]byte
		o.rng.Read(tid[:])
		_ = m.Build(BindingSuccess, NewTransactionIDSetter(tid))
		if o.rng.Intn(2) == 0 {
			m.Add(AttrSoftware, o.randBytes(o.rng.Intn(7)))
		}
		redecode := func() *Message {
			d := new(Message)
			if err := Decode(m.Raw, d); err != nil {
				o.failf("built message %s does not decode: %v", hexs(m.Raw), err)
				return nil
			}
			return d
		}
		switch o.rng.Intn(6) {
		case 0: // XOR-MAPPED-ADDRESS and AddToAs variants
			ip, port := o.randIP(), o.rng.Intn(65536)
			at := []AttrType{AttrXORMappedAddress, AttrXORPeerAddress, AttrXORRelayedAddress}[o.rng.Intn(3)]
			if err := (XORMappedAddress{IP: ip, Port: port}).AddToAs(m, at); err != nil {
				o.failf("XORMappedAddress.AddToAs(%v:%d): %v", ip, port, err)
				continue
			}
			wip := ip
			if isMapped(ip) {
				wip = ip[12:16]
			}
			v, typ := lastAttr(m)
			if typ != uint16(at) || !bytes.Equal(v, refXorAddr(wip, port, tid)) {
				o.failf("XOR address %v:%d (tid %x) written as %x, RFC 5389 15.2 bytes are %x", ip, port, tid, v, refXorAddr(wip, port, tid))
			}
			if d := redecode(); d != nil {
				var got XORMappedAddress
				if err := got.GetFromAs(d, at); err != nil || !got.IP.Equal(ip) || got.Port != port {
					o.failf("XOR address %v:%d read back as %v:%d (err %v)", ip, port, got.IP, got.Port, err)
				}
			}
		case 1: // MAPPED-ADDRESS family
			ip, port := o.randIP(), o.rng.Intn(65536)
			k := o.rng.Intn(4)
			var err error
			var want uint16
			switch k {
			case 0:
				err, want = (&MappedAddress{IP: ip, Port: port}).AddTo(m), 0x0001
			case 1:
				err, want = (&AlternateServer{IP: ip, Port: port}).AddTo(m), 0x8023
			case 2:
				err, want = (&ResponseOrigin{IP: ip, Port: port}).AddTo(m), 0x802b
			case 3:
				err, want = (&OtherAddress{IP: ip, Port: port}).AddTo(m), 0x802c
			}
			if err != nil {
				o.failf("address setter %d (%v:%d): %v", k, ip, port, err)
				continue
			}
			wip := ip
			if isMapped(ip) {
				wip = ip[12:16]
			}
			v, typ := lastAttr(m)
			if typ != want || !bytes.Equal(v, refAddr(wip, port)) {
				o.failf("address %v:%d written as type %#x value %x, RFC bytes are %#x %x", ip, port, typ, v, want, refAddr(wip, port))
			}
			if d := redecode(); d != nil {
				var gip net.IP
				var gport int
				switch k {
				case 0:
					var g MappedAddress
					err = g.GetFrom(d)
					gip, gport = g.IP, g.Port
				case 1:
					var g AlternateServer
					err = g.GetFrom(d)
					gip, gport = g.IP, g.Port
				case 2:
					var g ResponseOrigin
					err = g.GetFrom(d)
					gip, gport = g.IP, g.Port
				case 3:
					var g OtherAddress
					err = g.GetFrom(d)
					gip, gport = g.IP, g.Port
				}
				if err != nil || !gip.Equal(ip) || gport != port {
					o.failf("address %v:%d (setter %d) read back as %v:%d (err %v)", ip, port, k, gip, gport, err)
				}
			}
		case 2: // text attributes within the limit
			limits := []int{513, 763, 763, 763}
			k := o.rng.Intn(4)
			l := o.rng.Intn(limits[k] + 1)
			if o.rng.Intn(3) == 0 {
				l = limits[k] - o.rng.Intn(3)
			}
			txt := o.randBytes(l)
			var err error
			switch k {
			case 0:
				err = Username(txt).AddTo(m)
			case 1:
				err = Realm(txt).AddTo(m)
			case 2:
				err = Nonce(txt).AddTo(m)
			case 3:
				err = Software(txt).AddTo(m)
			}
			if err != nil {
				o.failf("text setter %d rejected %d bytes (limit %d): %v", k, l, limits[k], err)
				continue
			}
			if v, _ := lastAttr(m); !bytes.Equal(v, txt) {
				o.failf("text setter %d wrote %x for %x", k, v, txt)
			}
			if d := redecode(); d != nil {
				var got []byte
				switch k {
				case 0:
					var g Username
					err, got = g.GetFrom(d), g
				case 1:
					var g Realm
					err, got = g.GetFrom(d), g
				case 2:
					var g Nonce
					err, got = g.GetFrom(d), g
				case 3:
					var g Software
					// Software may also be the earlier SOFTWARE attribute added above: compare with the first one
					err, got = g.GetFrom(d), g
					if r, _ := refParse(d.Raw); r != nil {
						for _, a := range r.attrs {
							if a.typ == 0x8022 {
								txt = a.value
								break
							}
						}
					}
				}
				if err != nil || !bytes.Equal(got, txt) {
					o.failf("text attribute %d (%d bytes) read back as %x (err %v)", k, l, got, err)
				}
			}
		case 3: // ERROR-CODE
			code := 300 + o.rng.Intn(400)
			reason := o.randBytes(o.rng.Intn(764))
			if o.rng.Intn(3) == 0 {
				reason = o.randBytes(763 - o.rng.Intn(5))
			}
			if err := (ErrorCodeAttribute{Code: ErrorCode(code), Reason: reason}).AddTo(m); err != nil {
				o.failf("ErrorCodeAttribute{%d, %d bytes}.AddTo: %v", code, len(reason), err)
				continue
			}
			want := append([]byte{0, 0, byte(code / 100), byte(code % 100)}, reason...)
			if v, _ := lastAttr(m); !bytes.Equal(v, want) {
				o.failf("ERROR-CODE %d with a %d-byte reason written as %s, RFC 5389 15.6 bytes are %s", code, len(reason), hexs(v), hexs(want))
			}
			if d := redecode(); d != nil {
				var g ErrorCodeAttribute
				if err := g.GetFrom(d); err != nil || int(g.Code) != code || !bytes.Equal(g.Reason, reason) {
					o.failf("ERROR-CODE %d/%d-byte reason read back as %d/%d bytes (err %v)", code, len(reason), g.Code, len(g.Reason), err)
				}
			}
		case 4: // UNKNOWN-ATTRIBUTES
			n := o.rng.Intn(65)
			list := make(UnknownAttributes, n)
			var want []byte
			for i := range list {
				list[i] = AttrType(o.rng.Intn(0x10000))
				want = append(want, byte(list[i]>>8), byte(list[i]))
			}
			if err := list.AddTo(m); err != nil {
				o.failf("UnknownAttributes.AddTo: %v", err)
				continue
			}
			if v, _ := lastAttr(m); !bytes.Equal(v, want) {
				o.failf("UNKNOWN-ATTRIBUTES %v written as %x, RFC 5389 15.9 (16-bit entries) is %x", list, v, want)
			}
			if d := redecode(); d != nil {
				var g UnknownAttributes
				if err := g.GetFrom(d); err != nil || fmt.Sprint([]AttrType(g)) != fmt.Sprint([]AttrType(list)) {
					o.failf("UNKNOWN-ATTRIBUTES %v read back as %v (err %v)", list, g, err)
				}
			}
		case 5: // attributes produced by an independent encoder are read correctly
			ip, port := net.IP(o.randBytes([]int{4, 16}[o.rng.Intn(2)])), o.rng.Intn(65536)
			raw := refBuild(0x001, 2, tid, []refAttr{{typ: 0x0020, value: refXorAddr(ip, port, tid)}, {typ: 0x000A, value: []byte{0x00, 0x20, 0x80, 0x22}}, {typ: 0x0009, value: append([]byte{0, 0, 4, 38}, "Stale Nonce"...)}})
			d := new(Message)
			if err := Decode(raw, d); err != nil {
				o.failf("reference-encoded message %s does not decode: %v", hexs(raw), err)
				continue
			}
			var x XORMappedAddress
			var u UnknownAttributes
			var e ErrorCodeAttribute
			if err := d.Parse(&x, &u, &e); err != nil || !x.IP.Equal(ip) || x.Port != port || len(u) != 2 || u[0] != 0x0020 || u[1] != 0x8022 || e.Code != 438 {
				o.failf("reference-encoded message %s parsed as %v:%d %v %d (err %v)", hexs(raw), x.IP, x.Port, u, e.Code, err)
			}
		}
	}
}

// oracleGetters: C07 - every getter/checker on every value length 0..40, position, capacity and surroundings.
func (o *oracle) oracleGetters() {
	types := []uint16{0x0001, 0x0020, 0x8023, 0x802b, 0x802c, 0x0006, 0x0014, 0x0015, 0x8022, 0x0009, 0x000A, 0x0008, 0x8028}
	for o.more() {
		o.cases++
		t := types[o.rng.Intn(len(types))]
		l := o.rng.Intn(41)
		val := o.randBytes(l)
		if l >= 2 && o.rng.Intn(2) == 0 {
			val[0], val[1] = 0, byte(1+o.rng.Intn(2)) // plausible family
		}
		var tid [12]byte
		o.rng.Read(tid[:])
		build := func(fill byte, pos int) []byte {
			var attrs []refAttr
			mk := func() refAttr {
				b := make([]byte, o.rng.Intn(9))
				for i := range b {
					b[i] = fill
				}
				return refAttr{typ: 0x7777, value: b}
			}
			for i := 0; i < pos; i++ {
				attrs = append(attrs, mk())
			}
			attrs = append(attrs, refAttr{typ: t, value: val})
			for i := pos; i < 2; i++ {
				attrs = append(attrs, mk())
			}
			raw := refBuild(1, 0, tid, attrs)
			// padding content must not matter: fill the padding of our attribute
			r, _ := refParse(raw)
			a := r.attrs[pos]
			for p := a.off + len(a.value); p < a.off+refPad4(len(a.value)); p++ {
				raw[p] = fill
			}
			return raw
		}
		type outcome struct {
			err  string
			repr string
		}
		run := func(raw []byte, spare int, poison byte, dirty bool) (out outcome) {
			stale := func() net.IP { // what a getter kept between messages may still hold
				if !dirty {
					return nil
				}
				return net.IP(bytes.Repeat([]byte{0xEE}, 16))
			}
			d := new(Message)
			if err := Decode(inBuffer(raw, spare, poison), d); err != nil {
				o.failf("reference message %s does not decode: %v", hexs(raw), err)
				return
			}
			sr, sl, sn := o.snapshot(d)
			var err error
			what := fmt.Sprintf("getter for %#x on a %d-byte value %x (spare capacity %d)", t, l, val, spare)
			o.guard(what, func() {
				switch t {
				case 0x0001:
					var g MappedAddress
					g.IP = stale()
					err = g.GetFrom(d)
					out.repr = fmt.Sprintf("%v:%d", g.IP, g.Port)
				case 0x0020:
					var g XORMappedAddress
					g.IP = stale()
					err = g.GetFrom(d)
					out.repr = fmt.Sprintf("%v:%d", g.IP, g.Port)
				case 0x8023:
					var g AlternateServer
					g.IP = stale()
					err = g.GetFrom(d)
					out.repr = fmt.Sprintf("%v:%d", g.IP, g.Port)
				case 0x802b:
					var g ResponseOrigin
					g.IP = stale()
					err = g.GetFrom(d)
					out.repr = fmt.Sprintf("%v:%d", g.IP, g.Port)
				case 0x802c:
					var g OtherAddress
					g.IP = stale()
					err = g.GetFrom(d)
					out.repr = fmt.Sprintf("%v:%d", g.IP, g.Port)
				case 0x0006:
					var g Username
					err = g.GetFrom(d)
					out.repr = fmt.Sprintf("%x", []byte(g))
				case 0x0014:
					var g Realm
					err = g.GetFrom(d)
					out.repr = fmt.Sprintf("%x", []byte(g))
				case 0x0015:
					var g Nonce
					err = g.GetFrom(d)
					out.repr = fmt.Sprintf("%x", []byte(g))
				case 0x8022:
					var g Software
					err = g.GetFrom(d)
					out.repr = fmt.Sprintf("%x", []byte(g))
				case 0x0009:
					var g ErrorCodeAttribute
					err = g.GetFrom(d)
					out.repr = fmt.Sprintf("%d %x", g.Code, g.Reason)
				case 0x000A:
					var g UnknownAttributes
					err = g.GetFrom(d)
					out.repr = fmt.Sprint([]AttrType(g))
				case 0x0008:
					err = MessageIntegrity("key").Check(d)
				case 0x8028:
					err = Fingerprint.Check(d)
				}
			})
			if err != nil {
				out.err, out.repr = "error", ""
			}
			o.unchanged(what, d, sr, sl, sn)
			return out
		}
		pos := o.rng.Intn(3)
		a := run(build(0x00, pos), 0, 0, false)
		b := run(build(0xFF, pos), 1+o.rng.Intn(64), 0xFF, o.rng.Intn(2) == 0)
		if t != 0x0008 && t != 0x8028 && a != b {
			o.failf("getter for %#x on value %x (position %d): result depends on padding/neighbours/capacity/what a reused getter held before: %v vs %v", t, val, pos, a, b)
		}
	}
}

// oracleSetters: C09 - limits on both sides, atomic failure, Build stops at the first error.
func (o *oracle) oracleSetters() {
	for o.more() {
		o.cases++
		m := new(Message)
		_ = m.Build(BindingRequest, TransactionID)
		for i, n := 0, o.rng.Intn(3); i < n; i++ {
			m.Add(AttrType(0x7777), o.randBytes(o.rng.Intn(9)))
		}
		sr, sl, sn := o.snapshot(m)
		var err error
		wantErr := false
		what := ""
		switch o.rng.Intn(5) {
		case 0:
			limits := []int{513, 763, 763, 763}
			k := o.rng.Intn(4)
			l := limits[k] - 3 + o.rng.Intn(7)
			if o.rng.Intn(3) == 0 {
				l = o.rng.Intn(limits[k] + 300)
			}
			wantErr = l > limits[k]
			what = fmt.Sprintf("text setter %d with %d bytes (limit %d)", k, l, limits[k])
			v := o.randBytes(l)
			switch k {
			case 0:
				err = Username(v).AddTo(m)
			case 1:
				err = Realm(v).AddTo(m)
			case 2:
				err = Nonce(v).AddTo(m)
			case 3:
				err = Software(v).AddTo(m)
			}
		case 1:
			l := o.rng.Intn(21)
			wantErr = l != 4 && l != 16
			what = fmt.Sprintf("address setter with a %d-byte IP", l)
			ip := net.IP(o.randBytes(l))
			switch o.rng.Intn(3) {
			case 0:
				err = (XORMappedAddress{IP: ip, Port: 1}).AddTo(m)
			case 1:
				err = (&MappedAddress{IP: ip, Port: 1}).AddTo(m)
			case 2:
				err = (&OtherAddress{IP: ip, Port: 1}).AddTo(m)
			}
		case 2:
			l := 760 + o.rng.Intn(8)
			if o.rng.Intn(3) == 0 {
				l = o.rng.Intn(1100)
			}
			wantErr = l > 763
			what = fmt.Sprintf("ErrorCodeAttribute with a %d-byte reason", l)
			err = (ErrorCodeAttribute{Code: 400, Reason: o.randBytes(l)}).AddTo(m)
		case 3:
			code := o.rng.Intn(1000)
			known := map[int]bool{300: true, 400: true, 401: true, 403: true, 420: true, 437: true, 438: true, 440: true, 441: true, 442: true, 443: true, 446: true, 447: true, 486: true, 487: true, 500: true, 508: true}
			wantErr = !known[code]
			what = fmt.Sprintf("ErrorCode(%d).AddTo", code)
			err = ErrorCode(code).AddTo(m)
		case 4: // Build stops at and returns the first failing setter's error
			bad1 := Username(o.randBytes(600))
			bad2 := Realm(o.randBytes(900))
			calls := 0
			counter := setterFunc(func(*Message) error { calls++; return nil })
			b := new(Message)
			e := b.Build(BindingRequest, counter, bad1, counter, bad2)
			_, e1 := Build(bad1)
			if e == nil || e1 == nil || e.Error() != e1.Error() || calls != 1 {
				o.failf("Build with failing setters: error %v (want the first failing setter's: %v), later setters called %d times", e, e1, calls-1)
			}
			continue
		}
		if (err != nil) != wantErr {
			o.failf("%s: error=%v, expected rejection=%v", what, err, wantErr)
		}
		if err != nil {
			o.unchanged(what+" (failed)", m, sr, sl, sn)
		}
	}
}

type setterFunc func(*Message) error

func (f setterFunc) AddTo(m *Message) error { return f(m) }

func TestOracleC06(t *testing.T) { o := newOracle(t); o.oracleRoundTrip() }
func TestOracleC07(t *testing.T) { o := newOracle(t); o.oracleGetters() }

// oracleIntegrityAfterFingerprint: MESSAGE-INTEGRITY must be refused, atomically, wherever a FINGERPRINT already is,
// and Build must stop at that setter.
func (o *oracle) oracleIntegrityAfterFingerprint() {
	for i := 0; i < 60 && o.fails < 3; i++ {
		o.cases++
		m := new(Message)
		_ = m.Build(BindingRequest, TransactionID)
		pos := o.rng.Intn(3)
		for k := 0; k < 3; k++ {
			if k == pos {
				_ = Fingerprint.AddTo(m)
			} else {
				m.Add(AttrSoftware, o.randBytes(o.rng.Intn(9)))
			}
		}
		sr, sl, sn := o.snapshot(m)
		if err := MessageIntegrity("k").AddTo(m); err == nil {
			o.failf("MessageIntegrity.AddTo accepted a message with FINGERPRINT at attribute %d of 3", pos)
		}
		o.unchanged("refused MessageIntegrity.AddTo", m, sr, sl, sn)
		later := 0
		err := m.Build(BindingRequest, TransactionID, NewSoftware("a"), Fingerprint, NewSoftware("b"), MessageIntegrity("k"),
			setterFunc(func(*Message) error { later++; return nil }))
		if err == nil || later != 0 {
			o.failf("Build(..., Fingerprint, Software, MessageIntegrity, next): error=%v, later setters called %d times (expected the integrity setter's error and 0)", err, later)
		}
	}
}

func TestOracleC09(t *testing.T) {
	o := newOracle(t)
	o.oracleIntegrityAfterFingerprint()
	o.oracleSetters()
}
