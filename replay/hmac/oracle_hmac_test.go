// Oracle for C18 (package hmac): the pooled HMAC against crypto/hmac across reuse histories.
package hmac

import (
	"bytes"
	stdhmac "crypto/hmac"
	"crypto/sha1" //nolint:gosec
	"crypto/sha256"
	"fmt"
	"hash"
	"math/rand"
	"os"
	"strconv"
	"testing"
	"time"
)

func TestOracleC18(t *testing.T) {
	seed := int64(1)
	if s := os.Getenv("ORACLE_SEED"); s != "" {
		seed, _ = strconv.ParseInt(s, 10, 64)
	}
	budget := 8 * time.Second
	if s := os.Getenv("ORACLE_BUDGET_MS"); s != "" {
		if v, err := strconv.Atoi(s); err == nil {
			budget = time.Duration(v) * time.Millisecond
		}
	}
	rng := rand.New(rand.NewSource(seed))
	deadline := time.Now().Add(budget)
	fails := 0
	cases := 0
	if n, bad := oracleC18Concurrent(t, seed); bad != "" {
		fmt.Printf("FAILING-INPUT: %s\n", bad)
		t.Errorf("%s", bad)
		fails++
		cases += n
	} else {
		cases += n
	}
	defer func() { fmt.Printf("ORACLE-CASES: %d seed=%d\n", cases, seed) }()
	keyLens := []int{0, 1, 19, 20, 21, 32, 33, 63, 64, 65, 80, 200, 300}
	for time.Now().Before(deadline) && fails < 3 {
		history := ""
		var lastKey []byte
		for step := 0; step < 6 && fails < 3; step++ {
			cases++
			sha256Mode := rng.Intn(2) == 0
			key := make([]byte, keyLens[rng.Intn(len(keyLens))])
			rng.Read(key)
			if rng.Intn(3) == 0 && lastKey != nil {
				// the caller reuses its key buffer: same slice, (usually) new contents
				key = lastKey
				if rng.Intn(4) != 0 {
					rng.Read(key)
				}
				history += " (key buffer reused)"
			}
			lastKey = key
			keyCopy := append([]byte(nil), key...)
			var h, ref hash.Hash
			if sha256Mode {
				h, ref = AcquireSHA256(key), stdhmac.New(sha256.New, keyCopy)
			} else {
				h, ref = AcquireSHA1(key), stdhmac.New(sha1.New, keyCopy)
			}
			history += fmt.Sprintf(" acquire(sha256=%v,key %d bytes)", sha256Mode, len(key))
			for r := 0; r < 3; r++ {
				msg := make([]byte, rng.Intn(300))
				rng.Read(msg)
				for off := 0; off < len(msg); {
					n := 1 + rng.Intn(64)
					if off+n > len(msg) {
						n = len(msg) - off
					}
					h.Write(msg[off : off+n])
					ref.Write(msg[off : off+n])
					off += n
				}
				history += fmt.Sprintf(" write(%d)", len(msg))
				prefix := []byte{1, 2, 3}
				got, want := h.Sum(append([]byte(nil), prefix...)), ref.Sum(append([]byte(nil), prefix...))
				if !bytes.Equal(got, want) {
					fails++
					fmt.Printf("FAILING-INPUT: pooled HMAC history%s: Sum = %x, RFC 2104 (crypto/hmac) = %x (key %x)\n", history, got, want, keyCopy)
					t.Errorf("pooled HMAC differs from crypto/hmac after%s", history)
					break
				}
				if got2 := h.Sum(nil); !bytes.Equal(got2, want[3:]) {
					fails++
					fmt.Printf("FAILING-INPUT: pooled HMAC history%s: second Sum differs\n", history)
					t.Errorf("second Sum differs after%s", history)
					break
				}
				if rng.Intn(2) == 0 {
					h.Reset()
					ref.Reset()
					history += " reset"
				}
			}
			if !bytes.Equal(key, keyCopy) {
				fails++
				fmt.Printf("FAILING-INPUT: pooled HMAC history%s: the caller's key slice was modified\n", history)
				t.Errorf("key modified after%s", history)
			}
			if sha256Mode {
				PutSHA256(h)
			} else {
				PutSHA1(h)
			}
			history += " put"
		}
	}
}

// TestOracleC18 also exercises the pool from several goroutines at once: every result must still equal crypto/hmac
// (a pool that can hand the same object to two goroutines produces wrong MACs or panics inside the hash).
func oracleC18Concurrent(t *testing.T, seed int64) (cases int, failed string) {
	const workers, rounds = 8, 1500
	errs := make(chan string, workers)
	done := make(chan int, workers)
	for w := 0; w < workers; w++ {
		go func(w int) {
			n := 0
			defer func() {
				if r := recover(); r != nil {
					errs <- fmt.Sprintf("goroutine %d: panic inside the pooled HMAC: %v", w, r)
				}
				done <- n
			}()
			rng := rand.New(rand.NewSource(seed*100 + int64(w)))
			for i := 0; i < rounds; i++ {
				key := make([]byte, 1+rng.Intn(100))
				rng.Read(key)
				msg := make([]byte, rng.Intn(200))
				rng.Read(msg)
				var got, want []byte
				if rng.Intn(2) == 0 {
					h := AcquireSHA1(key)
					h.Write(msg)
					got = h.Sum(nil)
					PutSHA1(h)
					r := stdhmac.New(sha1.New, key)
					r.Write(msg)
					want = r.Sum(nil)
				} else {
					h := AcquireSHA256(key)
					h.Write(msg)
					got = h.Sum(nil)
					PutSHA256(h)
					r := stdhmac.New(sha256.New, key)
					r.Write(msg)
					want = r.Sum(nil)
				}
				n++
				if !bytes.Equal(got, want) {
					errs <- fmt.Sprintf("goroutine %d of %d using the pool concurrently, round %d: pooled HMAC %x, RFC 2104 (crypto/hmac) %x (key %x, %d-byte message)", w, workers, i, got, want, key, len(msg))
					return
				}
			}
		}(w)
	}
	for w := 0; w < workers; w++ {
		cases += <-done
	}
	select {
	case failed = <-errs:
	default:
	}
	return cases, failed
}
