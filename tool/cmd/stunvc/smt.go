package main

import (
	"bytes"
	"context"
	"crypto/sha256"
	"fmt"
	"os"
	"os/exec"
	"path/filepath"
	"sort"
	"strings"
	"sync"
	"time"
)

// Obligation is one proof duty: hyps |- goal.
type Obligation struct {
	Abstracted []string // auto-abstracted calls on the path (failure needs replay to count)
	Static     bool     // structural duty (call cycle, second Lock): independent of paths and of evaluable clauses
	Name   string // unique, stable name: <func>/<kind>/<site>
	Func   string // function under contract
	Kind   string // safety-index, safety-slice, requires, ensures, invariant-entry, invariant-preserved, frame, ...
	Props  []string
	Pos    string // source position
	Descr  string
	Hyps   []*Term
	Goal   *Term
	Tags   string   // build tags of the SSA this came from
	Uses   []string // local axioms enabled for this obligation
	NBase  int      // number of hypotheses before axiom/extensionality instances were appended (0: unknown)
	Smoke  bool     // vacuity query: goal is "false" and the expected answer is NOT unsat
	Result *Result
	Alt    *Obligation // skolemised variant with explicit instances of the quantified hypotheses (skolem.go); nil if none
	prep     func()    // builds Alt (serialised: the generator's term factories are not concurrent)
	prepOnce sync.Once
	gensymEnd, skEnd int
	fastFail bool   // the function already failed several obligations: short pipeline
	prepAnte func() // builds the sub-obligations of Alt's antecedent groups (needed by the full skolem stage only)
	anteOnce sync.Once
	Ante   []*anteGroup // (of a variant) implications with quantified antecedents, each with the sub-goals that establish the antecedent
	noAnte bool
}

type Result struct {
	Status  string // "unsat" (discharged), "trivial", "sat", "unknown", "timeout", "error"
	Solver  string
	Seconds float64
	Detail  string
	File    string
	Hash    string
	Model   string
}

// funDecls: name -> SMT declaration/definition text, emitted when the name occurs.
var (
	funDecls  = map[string]string{}
	funOrder  []string
	funDeps   = map[string][]string{} // definition dependencies
	sortDecls []string
)

var declMu sync.RWMutex // declarations are added while variants are built (one at a time) and read by every worker

func declareFun(name, decl string, deps ...string) {
	declMu.Lock()
	defer declMu.Unlock()
	if _, ok := funDecls[name]; ok {
		return
	}
	funDecls[name] = decl
	funOrder = append(funOrder, name)
	funDeps[name] = deps
}

// arraySyms collects array-sorted free symbols.
func arraySyms(t *Term) map[string]bool {
	m := map[string]string{}
	freeSyms(t, m)
	out := map[string]bool{}
	for k, s := range m {
		if strings.HasPrefix(s, "(Array") && k != "alloc@0" && !strings.HasPrefix(k, "alloc!") {
			out[k] = true
		}
	}
	return out
}

// droppable: a hypothesis that is a quantified fact at top level (possibly guarded);
// mixed formulas (e.g. b <=> (A && forall ...)) are always kept.
func droppable(h *Term) bool {
	switch h.Op {
	case "forall":
		return true
	case "=>":
		return len(h.Args) == 2 && droppable(h.Args[1])
	}
	return false
}

func isQuantified(t *Term) bool {
	q := false
	t.walk(func(x *Term) {
		if x.Op == "forall" || x.Op == "exists" {
			q = true
		}
	})
	return q
}

// relevantHyps drops quantified hypotheses that are not connected to the goal
// through shared array symbols (dropping hypotheses is always sound).
// scalarLike: two-level families that are only ever read at index 0 of some object (fields of
// pointed-to structs such as m.Length): they behave like scalars and must not connect hypotheses.
func scalarLike(terms []*Term) map[string]bool {
	indexed := map[string]bool{}
	all := map[string]bool{}
	var rec func(t *Term, parentSel *Term)
	rec = func(t *Term, parent *Term) {
		if t.Op == "sym" && strings.HasPrefix(t.Sort, "(Array Int (Array") {
			all[t.Name] = true
			// fine only in the shape select(select(F, r), 0)
			ok := false
			if parent != nil && parent.Op == "select" && parent.Args[0] == t {
				ok = true // inner select; the outer index is checked when visiting the outer select
			}
			if !ok {
				indexed[t.Name] = true
			}
			return
		}
		if t.Op == "select" && t.Args[0].Op == "select" && t.Args[0].Args[0].Op == "sym" {
			f := t.Args[0].Args[0]
			if strings.HasPrefix(f.Sort, "(Array Int (Array") {
				if !(t.Args[1].IsInt() && t.Args[1].Val.Sign() == 0) {
					indexed[f.Name] = true
				}
			}
		}
		for _, a := range t.Args {
			rec(a, t)
		}
		for _, p := range t.Pats {
			rec(p, t)
		}
	}
	for _, t := range terms {
		rec(t, nil)
	}
	out := map[string]bool{}
	for f := range all {
		if !indexed[f] {
			out[f] = true
		}
	}
	return out
}

func relevantHyps(hyps []*Term, goal *Term) []*Term {
	anyQ := false
	for _, h := range hyps {
		if droppable(h) {
			anyQ = true
			break
		}
	}
	if !anyQ {
		return hyps
	}
	all := append(append([]*Term(nil), hyps...), goal)
	hubs := scalarLike(all)
	// object symbols used to address fields (m, msg, h, ...) occur in every heap read: hubs as well
	var findObj func(t *Term)
	findObj = func(t *Term) {
		if t.Op == "select" && t.Args[0].Op == "select" && t.Args[0].Args[0].Op == "sym" && hubs[t.Args[0].Args[0].Name] {
			if r := t.Args[0].Args[1]; r.Op == "sym" {
				hubs[r.Name] = true
			}
		}
		for _, a := range t.Args {
			findObj(a)
		}
	}
	for _, t := range all {
		findObj(t)
	}
	symsOf := func(t *Term) map[string]bool {
		m := map[string]string{}
		freeSyms(t, m)
		out := map[string]bool{}
		for k := range m {
			if hubs[k] || k == "alloc@0" || strings.HasPrefix(k, "alloc!") || k == "ghost.held@0" {
				continue
			}
			out[k] = true
		}
		return out
	}
	S := symsOf(goal)
	type hinfo struct {
		syms map[string]bool
		in   bool
	}
	infos := make([]hinfo, len(hyps))
	for i, h := range hyps {
		infos[i] = hinfo{syms: symsOf(h)}
	}
	for changed := true; changed; {
		changed = false
		for i := range infos {
			hi := &infos[i]
			if hi.in {
				continue
			}
			share := len(hi.syms) == 0
			for a := range hi.syms {
				if S[a] {
					share = true
					break
				}
			}
			if share {
				hi.in = true
				for a := range hi.syms {
					if !S[a] {
						S[a] = true
						changed = true
					}
				}
			}
		}
	}
	var out []*Term
	for i, h := range hyps {
		if infos[i].in || !droppable(h) {
			out = append(out, h)
		}
	}
	return out
}

func smtFile(hyps []*Term, goal *Term, opts string, getModel bool, extra string) string {
	declMu.RLock()
	defer declMu.RUnlock()
	var b bytes.Buffer
	hyps = relevantHyps(hyps, goal)
	b.WriteString(opts)
	syms := map[string]string{}
	used := map[string]bool{}
	var mark func(n string)
	mark = func(n string) {
		if used[n] {
			return
		}
		if _, ok := funDecls[n]; !ok {
			return
		}
		used[n] = true
		for _, d := range funDeps[n] {
			mark(d)
		}
	}
	collect := func(t *Term) {
		freeSyms(t, syms)
		t.walk(func(x *Term) { mark(x.Op) })
	}
	for _, h := range hyps {
		collect(h)
	}
	collect(goal)
	for _, s := range sortDecls {
		b.WriteString(s + "\n")
	}
	for _, n := range funOrder {
		if used[n] {
			b.WriteString(funDecls[n] + "\n")
		}
	}
	for _, k := range sortedKeys(syms) {
		fmt.Fprintf(&b, "(declare-fun |%s| () %s)\n", k, syms[k])
	}
	// constant strings that occur in the query: their length and (for short ones) their bytes
	if used["strlen"] || used["strbytes"] {
		seen := map[int64]bool{}
		note := func(t *Term) {
			t.walk(func(x *Term) {
				if x.Op == "int" && x.Val != nil && x.Val.IsInt64() {
					if _, ok := constStrings[x.Val.Int64()]; ok {
						seen[x.Val.Int64()] = true
					}
				}
			})
		}
		for _, h := range hyps {
			note(h)
		}
		note(goal)
		var ids []int64
		for id := range seen {
			ids = append(ids, id)
		}
		sort.Slice(ids, func(i, j int) bool { return ids[i] < ids[j] })
		for _, id := range ids {
			str := constStrings[id]
			if used["strlen"] {
				fmt.Fprintf(&b, "(assert (= (strlen %d) %d))\n", id, len(str))
			}
			if used["strbytes"] && len(str) <= 16 {
				for i := 0; i < len(str); i++ {
					fmt.Fprintf(&b, "(assert (= (select (strbytes %d) %d) %d))\n", id, i, str[i])
				}
			}
		}
	}
	for _, h := range hyps {
		if h.IsTrue() {
			continue
		}
		fmt.Fprintf(&b, "(assert %s)\n", h)
	}
	fmt.Fprintf(&b, "(assert (not %s))\n", goal)
	b.WriteString(extra)
	b.WriteString("(check-sat)\n")
	if getModel {
		b.WriteString("(get-model)\n")
	}
	return b.String()
}

type solverSpec struct {
	name string
	argv func(file string, timeoutS int) []string
	opts string
}

var solvers = []solverSpec{
	{"z3-new", func(f string, t int) []string { return []string{"z3-new", fmt.Sprintf("-T:%d", t), f} }, ""},
	{"z3", func(f string, t int) []string { return []string{"z3", fmt.Sprintf("-T:%d", t), f} }, ""},
	{"cvc5", func(f string, t int) []string {
		return []string{"cvc5", fmt.Sprintf("--tlimit=%d", t*1000), "--lang=smt2", f}
	}, "(set-logic ALL)\n"},
}

type solverStats struct {
	mu      sync.Mutex
	wins    map[string]int
	seconds map[string]float64
	calls   map[string]int
}

var stats = &solverStats{wins: map[string]int{}, seconds: map[string]float64{}, calls: map[string]int{}}

// wallFactor: solver budgets are CPU seconds (ulimit -t in a wrapper shell), so that a query that is decided in 10 s on an
// idle machine is decided on a loaded one as well; the wall-clock limit is a multiple of the budget and only a safety net.
const wallFactor = 5

func runSolver(ctx context.Context, sp solverSpec, file string, timeoutS int) (status, out string, secs float64) {
	t0 := time.Now()
	argv := sp.argv(file, timeoutS*wallFactor)
	cctx, cancel := context.WithTimeout(ctx, time.Duration(timeoutS*wallFactor+5)*time.Second)
	defer cancel()
	var q []string
	for _, a := range argv {
		q = append(q, "'"+strings.ReplaceAll(a, "'", "'\\''")+"'")
	}
	cmd := exec.CommandContext(cctx, "/bin/sh", "-c", fmt.Sprintf("ulimit -t %d; exec %s", timeoutS, strings.Join(q, " ")))
	var ob bytes.Buffer
	cmd.Stdout = &ob
	cmd.Stderr = &ob
	_ = cmd.Run()
	secs = time.Since(t0).Seconds()
	out = ob.String()
	first := strings.TrimSpace(strings.SplitN(out, "\n", 2)[0])
	switch first {
	case "unsat", "sat", "unknown", "timeout":
		status = first
	default:
		if ctx.Err() != nil || cctx.Err() != nil {
			status = "timeout"
		} else if strings.TrimSpace(out) == "" || strings.Contains(out, "Killed") || strings.Contains(out, "CPU time limit") {
			status = "timeout" // stopped by the CPU-second limit of the wrapper shell before it printed an answer
		} else if strings.Contains(out, "timeout") || strings.Contains(out, "interrupted") {
			status = "timeout"
		} else {
			status = "error"
		}
	}
	stats.mu.Lock()
	stats.calls[sp.name]++
	stats.seconds[sp.name] += secs
	stats.mu.Unlock()
	return
}

var smtDir string

// constStrings: id -> text of the string constants met so far (ids are the integers that stand for them)
var constStrings = map[int64]string{0: ""}

func obFileName(name string) string {
	r := strings.NewReplacer("/", "_", "*", "", "(", "", ")", "", " ", "_", ":", "_", "#", "_")
	s := r.Replace(name)
	if len(s) > 150 {
		h := sha256.Sum256([]byte(s))
		s = s[:130] + fmt.Sprintf("_%x", h[:6])
	}
	return s
}

// discharge decides one obligation. tier: "quick" or "thorough".
func discharge(ob *Obligation, tier string, timeoutS int) {
	if ob.Goal.IsTrue() {
		ob.Result = &Result{Status: "trivial"}
		return
	}
	base := filepath.Join(smtDir, obFileName(ob.Name))
	type ans struct {
		sp     solverSpec
		status string
		out    string
		secs   float64
	}
	write := func(sp solverSpec) string {
		txt := smtFile(ob.Hyps, ob.Goal, sp.opts, false, "")
		f := base + "." + sp.name + ".smt2"
		_ = os.WriteFile(f, []byte(txt), 0o644)
		return f
	}
	hashOf := func() string {
		h := sha256.Sum256([]byte(smtFile(ob.Hyps, ob.Goal, "", false, "")))
		return fmt.Sprintf("%x", h[:8])
	}
	res := &Result{Hash: hashOf(), File: base + ".z3-new.smt2"}
	ob.Result = res

	// stage 0: the ground core only (no quantified hypotheses, no axiom instances). Fewer hypotheses is
	// always sound, and many duties (lengths, bounds, header fields) are decided here in milliseconds
	// even when the full hypothesis set sends the solver into quantifier instantiation.
	{
		var ground []*Term
		n := len(ob.Hyps)
		if ob.NBase > 0 && ob.NBase < n {
			n = ob.NBase
		}
		for _, h := range ob.Hyps[:n] {
			if !isQuantified(h) {
				ground = append(ground, h)
			}
		}
		if len(ground) < len(ob.Hyps) {
			txt := smtFile(ground, ob.Goal, groundOpts, false, "")
			f := base + ".ground.smt2"
			_ = os.WriteFile(f, []byte(txt), 0o644)
			st, _, secs := runSolverMs(solvers[0], f, 1500)
			if st == "unsat" {
				res.Status, res.Solver, res.Seconds, res.Detail = "unsat", "z3-new", secs, "ground-core"
				stats.mu.Lock()
				stats.wins["z3-new"]++
				stats.calls["z3-new"]++
				stats.seconds["z3-new"] += secs
				stats.mu.Unlock()
				return
			}
		}
	}
	if tier == "quick" {
		// stage 1: z3-new with a short budget, (other random seeds follow in stage 1b; its run time on the quantified queries
		// varies by a factor of ten with the seed and with the names of the symbols: 0.5 s .. 17 s for one and the same
		// obligation of MessageIntegrity.Check); the first answer wins
		// seed 0 first, alone (most obligations end here); the other two seeds only for what it left undecided
		{
			f := base + ".z3-new.smt2"
			_ = os.WriteFile(f, []byte(smtFile(ob.Hyps, ob.Goal, "", false, "")), 0o644)
			st, out, secs := runSolver(context.Background(), solvers[0], f, 3)
			if st == "unsat" || st == "sat" {
				res.Status, res.Solver, res.Seconds, res.Detail = st, solvers[0].name, secs, firstLines(out, 3)
				if st == "unsat" {
					stats.mu.Lock()
					stats.wins[solvers[0].name]++
					stats.mu.Unlock()
				}
				return
			}
		}
	}
	if tier != "quick" {
		// thorough tier, stage 1t: z3-new and z3 on the plain query with a short budget; if both say unsat the
		// obligation is decided with two solvers agreeing and no variant has to be built
		type r2 struct {
			sp     solverSpec
			st     string
			secs   float64
		}
		ch2 := make(chan r2, 2)
		for _, sp := range solvers[:2] {
			sp := sp
			f := write(sp)
			go func() {
				st, _, secs := runSolver(context.Background(), sp, f, 6)
				ch2 <- r2{sp, st, secs}
			}()
		}
		a, b := <-ch2, <-ch2
		if a.st == "unsat" && b.st == "unsat" {
			res.Status, res.Solver, res.Seconds = "unsat", a.sp.name, a.secs
			stats.mu.Lock()
			stats.wins[a.sp.name]++
			stats.mu.Unlock()
			return
		}
	}
	// stage 2a: the skolemised variant, instances only (see skolem.go) - a ground query, fast when it works
	if skolemStage(ob, res, base, tier, false) {
		return
	}
	if tier == "quick" {
		// stage 1b: the two other seeds, for what neither seed 0 nor the instance stage decided
		type r1 struct {
			st, out string
			secs    float64
		}
		ctx1, cancel1 := context.WithCancel(context.Background())
		ch1 := make(chan r1, 2)
		for _, seed := range []int{2, 5} {
			seed := seed
			go func() {
				opts := ""
				if seed != 0 {
					opts = fmt.Sprintf("(set-option :smt.random_seed %d)\n(set-option :sat.random_seed %d)\n", seed, seed)
				}
				f := fmt.Sprintf("%s.s%d.smt2", base, seed)
				if seed == 0 {
					f = base + ".z3-new.smt2"
				}
				_ = os.WriteFile(f, []byte(smtFile(ob.Hyps, ob.Goal, opts, false, "")), 0o644)
				st, out, secs := runSolver(ctx1, solvers[0], f, 4)
				ch1 <- r1{st, out, secs}
			}()
		}
		decided := false
		for i := 0; i < 2; i++ {
			a := <-ch1
			if !decided && (a.st == "unsat" || a.st == "sat") {
				decided = true
				cancel1()
				res.Status, res.Solver, res.Seconds, res.Detail = a.st, solvers[0].name, a.secs, firstLines(a.out, 3)
				if a.st == "unsat" {
					stats.mu.Lock()
					stats.wins[solvers[0].name]++
					stats.mu.Unlock()
				}
			}
		}
		cancel1()
		if decided {
			return
		}
	}
	// stage 2b/2c: the skolemised variant with the consequents of established antecedents, ground first, then with
	// the quantified hypotheses kept
	if !ob.fastFail && skolemStage(ob, res, base, tier, true) {
		return
	}
	// race all
	ctx, cancel := context.WithCancel(context.Background())
	defer cancel()
	racers := solvers
	if tier == "quick" {
		// a fourth runner: z3-new with its legacy arithmetic core (faster on the div/mod of pad4 and the byte splits);
		// not used in the thorough tier, where agreement of two different solvers is asked for
		racers = append(append([]solverSpec(nil), solvers...), solverSpec{"z3-new-la", solvers[0].argv, groundOpts})
	}
	ch := make(chan ans, len(racers))
	for _, sp := range racers {
		sp := sp
		f := write(sp)
		go func() {
			st, out, secs := runSolver(ctx, sp, f, timeoutS)
			ch <- ans{sp, st, out, secs}
		}()
	}
	var got []ans
	unsat := 0
	for range racers {
		a := <-ch
		got = append(got, a)
		if a.status == "unsat" {
			unsat++
			if tier == "quick" || unsat >= 2 {
				res.Status, res.Solver, res.Seconds = "unsat", a.sp.name, a.secs
				stats.mu.Lock()
				stats.wins[a.sp.name]++
				stats.mu.Unlock()
				if tier == "quick" {
					return
				}
			}
		}
		if a.status == "sat" {
			res.Status, res.Solver, res.Seconds, res.Detail = "sat", a.sp.name, a.secs, firstLines(a.out, 3)
			return
		}
	}
	if res.Status == "unsat" {
		return
	}
	if unsat == 1 {
		// thorough tier wants two; one unsat and the others inconclusive is still a proof by that solver
		for _, a := range got {
			if a.status == "unsat" {
				res.Status, res.Solver, res.Seconds = "unsat", a.sp.name, a.secs
				res.Detail = "single-solver"
				stats.mu.Lock()
				stats.wins[a.sp.name]++
				stats.mu.Unlock()
				return
			}
		}
	}
	// undecided
	sort.Slice(got, func(i, j int) bool { return got[i].sp.name < got[j].sp.name })
	var d []string
	st := "unknown"
	allTimeout := true
	for _, a := range got {
		d = append(d, a.sp.name+":"+a.status+" "+firstLines(a.out, 2))
		if a.status != "timeout" {
			allTimeout = false
		}
		if a.status == "error" && a.sp.name != "cvc5" {
			st = "error" // cvc5 rejects some z3-only constructs (arrays indexed by arrays); that is "unknown", not an error
		}
	}
	if allTimeout {
		st = "timeout"
	}
	res.Status, res.Detail = st, strings.Join(d, " | ")
}

// skolemStage asks the skolemised variant of ob (an equivalent question, see skolem.go). full == false: only the
// ground query made of the non-quantified hypotheses and the instances (dropping hypotheses is sound). full == true:
// first the antecedent groups are established, then the ground query with their consequents, then the query with the
// quantified hypotheses kept.
var prepMu sync.Mutex

var (
	failMu    sync.Mutex
	failCount = map[string]int{}
)

func funcFailures(f string) int {
	failMu.Lock()
	defer failMu.Unlock()
	return failCount[f]
}

func noteFuncFailure(f string) {
	failMu.Lock()
	failCount[f]++
	failMu.Unlock()
}

// groundOpts: for the quantifier-free queries (arrays, linear arithmetic with the div/mod of pad4 and of the big-endian
// splits) z3's legacy arithmetic core decides in a fraction of a second what the default core does not finish.
const groundOpts = "(set-option :smt.arith.solver 2)\n"

// stripQuantified returns a quantifier-free consequence of t: quantified sub-formulas in positive positions become
// true, anything else that contains a quantifier is given up as a whole.
func stripQuantified(t *Term) *Term {
	if !isQuantified(t) {
		return t
	}
	switch t.Op {
	case "and":
		args := make([]*Term, len(t.Args))
		for i, a := range t.Args {
			args[i] = stripQuantified(a)
		}
		return And(args...)
	case "=>":
		if len(t.Args) == 2 && !isQuantified(t.Args[0]) {
			return Implies(t.Args[0], stripQuantified(t.Args[1]))
		}
	}
	return tTrue
}

func skolemStage(ob *Obligation, res *Result, base, tier string, full bool) bool {
	if ob.prep != nil {
		ob.prepOnce.Do(func() {
			prepMu.Lock()
			defer prepMu.Unlock()
			// names generated while building the variant depend on the obligation only, not on the order in which the
			// workers get here (solvers are sensitive to symbol names: the same question must be the same text)
			saved, savedSk := gensym, skCounter
			gensym, skCounter = 10_000_000, 0
			ob.prep()
			ob.gensymEnd, ob.skEnd = gensym, skCounter
			gensym, skCounter = saved, savedSk
		})
	}
	if ob.Alt == nil {
		return false
	}
	groundOf := func(hs []*Term) []*Term {
		var g []*Term
		for _, h := range hs {
			if !isQuantified(h) {
				g = append(g, h)
			} else if h2 := stripQuantified(h); !h2.IsTrue() {
				g = append(g, h2)
			}
		}
		return g
	}
	done := func(sp solverSpec, secs float64, detail string, agree int) bool {
		res.Status, res.Solver, res.Seconds, res.Detail = "unsat", sp.name, secs, detail
		if tier != "quick" && agree < 2 {
			res.Detail += " single-solver"
		}
		stats.mu.Lock()
		stats.wins[sp.name]++
		stats.mu.Unlock()
		return true
	}
	ask := func(hyps []*Term, file string, budget int, detail string) bool {
		opts := ""
		if strings.Contains(detail, "instances only") {
			opts = groundOpts
		}
		_ = os.WriteFile(file, []byte(smtFile(hyps, ob.Alt.Goal, opts, false, "")), 0o644)
		st, _, secs := runSolver(context.Background(), solvers[0], file, budget)
		if st != "unsat" {
			return false
		}
		agree := 1
		if tier != "quick" {
			if st2, _, _ := runSolver(context.Background(), solvers[1], file, budget); st2 == "unsat" {
				agree = 2
			}
		}
		return done(solvers[0], secs, detail, agree)
	}
	if !full {
		budget := 3
		if tier != "quick" {
			budget = 15
		}
		return ask(groundOf(ob.Alt.Hyps), base+".skg.smt2", budget, "skolemised, instances only")
	}
	budget := 6
	if tier != "quick" {
		budget = 30
	}
	if ob.prepAnte != nil && len(ob.Alt.Ante) > 0 {
		ob.anteOnce.Do(func() {
			prepMu.Lock()
			defer prepMu.Unlock()
			saved, savedSk := gensym, skCounter
			gensym, skCounter = ob.gensymEnd, ob.skEnd
			tp := time.Now()
			ob.prepAnte()
			if os.Getenv("STUNVC_TIMING") != "" {
				n := 0
				for _, g := range ob.Alt.Ante {
					n += len(g.Obs)
				}
				fmt.Fprintf(os.Stderr, "timing: prepAnte %.1fs (%d groups, %d sub-goals) %s\n", time.Since(tp).Seconds(), len(ob.Alt.Ante), n, ob.Name)
			}
			gensym, skCounter = saved, savedSk
		})
	}
	altHyps := ob.Alt.Hyps
	nAnte := 0
	// the groups are independent questions: ask them concurrently
	holds := make([]bool, len(ob.Alt.Ante))
	var wg sync.WaitGroup
	for i, g := range ob.Alt.Ante {
		i, g := i, g
		wg.Add(1)
		go func() {
			defer wg.Done()
			holds[i] = anteHolds(g, fmt.Sprintf("%s.g%d", base, i))
		}()
	}
	wg.Wait()
	for i, g := range ob.Alt.Ante {
		if holds[i] {
			altHyps = append(append([]*Term(nil), altHyps...), g.Qs...)
			nAnte++
		}
	}
	if nAnte > 0 {
		if ask(groundOf(altHyps), base+".skga.smt2", budget, fmt.Sprintf("skolemised, instances only, %d antecedent(s) established", nAnte)) {
			return true
		}
	}
	return ask(altHyps, base+".sk.smt2", budget, fmt.Sprintf("skolemised+instances, %d antecedent(s) established", nAnte))
}

// anteHolds: every conjunct of the group's antecedent is entailed by the hypotheses. The obligations of one site ask
// the same sub-questions: each is decided once (single flight) and the sub-questions of a group run concurrently.
type anteEntry struct {
	once sync.Once
	ok   bool
}

var anteCache sync.Map // query hash -> *anteEntry

func anteHolds(g *anteGroup, base string) bool {
	results := make([]bool, len(g.Obs))
	var wg sync.WaitGroup
	sem := make(chan struct{}, 4)
	for i, sub := range g.Obs {
		i, sub := i, sub
		wg.Add(1)
		sem <- struct{}{}
		go func() {
			defer wg.Done()
			defer func() { <-sem }()
			var ground []*Term
			for _, h := range sub.Hyps {
				if !isQuantified(h) {
					ground = append(ground, h)
				}
			}
			gtxt := smtFile(ground, sub.Goal, groundOpts, false, "")
			h := sha256.Sum256([]byte(gtxt))
			key := fmt.Sprintf("%x", h[:12])
			e, _ := anteCache.LoadOrStore(key, &anteEntry{})
			ent := e.(*anteEntry)
			ent.once.Do(func() {
				f := fmt.Sprintf("%s.ante%d.%s.smt2", base, i, key[:8])
				_ = os.WriteFile(f+".g", []byte(gtxt), 0o644)
				st, _, _ := runSolver(context.Background(), solvers[0], f+".g", 2)
				if st != "unsat" {
					_ = os.WriteFile(f, []byte(smtFile(sub.Hyps, sub.Goal, "", false, "")), 0o644)
					st, _, _ = runSolver(context.Background(), solvers[0], f, 3)
				}
				ent.ok = st == "unsat"
			})
			results[i] = ent.ok
		}()
	}
	wg.Wait()
	for _, r := range results {
		if !r {
			return false
		}
	}
	return true
}

func firstLines(s string, n int) string {
	ls := strings.Split(strings.TrimSpace(s), "\n")
	if len(ls) > n {
		ls = ls[:n]
	}
	return strings.Join(ls, " ; ")
}

// dischargeAll runs obligations in parallel.
func dischargeAll(obs []*Obligation, tier string, timeoutS, workers int) {
	var wg sync.WaitGroup
	ch := make(chan *Obligation)
	for i := 0; i < workers; i++ {
		wg.Add(1)
		go func() {
			defer wg.Done()
			for ob := range ch {
				t0 := time.Now()
				// Once several obligations of a function have failed through every stage, the function does not meet
				// its contract on this tree: the remaining ones get the short pipeline (they can only add further
				// failures to a check that already fails; on a tree where everything is discharged this never triggers).
				to := timeoutS
				if tier == "quick" && funcFailures(ob.Func) >= 3 {
					ob.fastFail = true
					if to > 8 {
						to = 8
					}
				}
				discharge(ob, tier, to)
				// the variant (instances, sub-goals, their cached texts) is only needed while the obligation is being
				// decided: thousands of them kept alive exhausted the memory of a thorough run
				ob.Alt, ob.prep, ob.prepAnte = nil, nil, nil
				if s := ob.Result.Status; s != "unsat" && s != "trivial" {
					noteFuncFailure(ob.Func)
				}
				if os.Getenv("STUNVC_TIMING") != "" {
					if d := time.Since(t0).Seconds(); d > 3 {
						fmt.Fprintf(os.Stderr, "timing: %.1fs %s [%s]\n", d, ob.Name, ob.Result.Detail)
					}
				}
			}
		}()
	}
	for _, ob := range obs {
		ch <- ob
	}
	close(ch)
	wg.Wait()
}

// smokeCheck: hyps must not be contradictory: (assert hyps) with goal false must not be unsat within 1s.
// smokeStatus runs the satisfiability probe of a hypothesis set with the given timeout.
func smokeStatus(name string, hyps []*Term, timeoutS int) string {
	txt := smtFile(hyps, tFalse, "", false, "")
	f := filepath.Join(smtDir, obFileName(name)+".smoke.smt2")
	_ = os.WriteFile(f, []byte(txt), 0o644)
	st, _, _ := runSolver(context.Background(), solvers[0], f, timeoutS)
	return st
}

func smokeCheck(name string, hyps []*Term) (vacuous bool) {
	return smokeStatus(name, hyps, 1) == "unsat"
}

// runSmokes returns the names of vacuity probes that failed.
func runSmokes(sms []*smoke, workers int) []string {
	nSmokes = len(sms)
	var mu sync.Mutex
	var out []string
	var wg sync.WaitGroup
	ch := make(chan *smoke)
	for i := 0; i < workers; i++ {
		wg.Add(1)
		go func() {
			defer wg.Done()
			for sm := range ch {
				if smokeCheck(sm.name, sm.after) {
					// The hypotheses are refutable after the step. That only means something if they were not
					// refutable before it; the "before" probe gets a generous budget, and a probe that merely ran out
					// of time (busy machine) proves nothing either way and raises no alarm.
					before := "sat"
					if sm.before != nil {
						before = smokeStatus(sm.name+".before", sm.before, 20)
					}
					if before != "unsat" && before != "timeout" && before != "error" {
						mu.Lock()
						out = append(out, sm.name)
						mu.Unlock()
					}
				}
			}
		}()
	}
	for _, sm := range sms {
		ch <- sm
	}
	close(ch)
	wg.Wait()
	sort.Strings(out)
	return out
}

func runSolverMs(sp solverSpec, file string, ms int) (string, string, float64) {
	t0 := time.Now()
	ctx, cancel := context.WithTimeout(context.Background(), time.Duration(ms+200)*time.Millisecond)
	defer cancel()
	cmd := exec.CommandContext(ctx, "z3-new", fmt.Sprintf("-t:%d", ms), file)
	var ob bytes.Buffer
	cmd.Stdout = &ob
	_ = cmd.Run()
	first := strings.TrimSpace(strings.SplitN(ob.String(), "\n", 2)[0])
	return first, ob.String(), time.Since(t0).Seconds()
}
