package main

import (
	"bufio"
	"fmt"
	"go/ast"
	"go/parser"
	"os"
	"regexp"
	"strings"
)

// Clause is one requires/ensures/invariant/... with its property tags.
type Clause struct {
	Kind  string // requires, ensures, invariant, decreases, assigns, lemma
	Src   string
	Expr  ast.Expr
	Locs  []ast.Expr // for assigns
	Props []string
	Line  string // file:line
}

type LoopContract struct {
	Ordinal    int
	Invariants []*Clause
	Assigns    []*Clause
	Decreases  *Clause
	HasAssigns bool
	Polls      string    // field name of a stop channel: every path around the loop must poll it (static duty, C15)
	PollsProps []string
	Uses       []*Clause // lemma instances assumed at the loop head (after the invariant) and on the back edge (before the invariant is re-proved)
}

type FuncContract struct {
	Name           string // as written (package relative)
	Params         []string
	Transparent    bool
	Trusted        bool // extern: assumed, not verified
	Pure           bool
	Allocates      bool
	Mode           string // "" | "bv"
	Safety         []string
	Requires       []*Clause
	Ensures        []*Clause
	Asserts        []*Clause // proved at every return (locals visible), then assumed for the ensures; not exported to callers
	Derives        []*Clause // two-state lemmas over the contract: proved from requires + ensures + frame alone (not from the body), exported to callers like ensures
	DeriveUses     []*Clause // use-clauses of the derivation
	Assigns        []*Clause
	HasAssigns     bool
	Decreases      *Clause
	Loops          map[int]*LoopContract
	AllProps       map[string]bool
	File           string
	Src            []string // raw lines, printed in evidence for trusted contracts
	NoPanicSkip    bool
	Uses           []string // local axioms (laxiom) to instantiate in this function's obligations
	Constructs     bool     // runs before its receiver/argument object is shared (constructor, option): field discipline does not apply
	CallsUnderLock bool     // may call handlers/externals while holding its lock (Agent.Close: the property's carve-out)
	ViewResult     bool     // result is an attribute-value view (C07 strict-view duty applies to re-slices)
	ResultType     string   // dynamic type of an interface-typed result (calls on it resolve statically)
}

type Define struct {
	Name   string
	Params []string
	Body   ast.Expr
	Src    string
}

type SpecFun struct {
	Name   string
	Params []specParam
	Ret    string // int | bool
}

type specParam struct{ Name, Typ string }

type Axiom struct {
	Name     string
	Params   []specParam
	Trigger  string   // spec function name whose ground applications instantiate this axiom
	TrigArgs []string // argument names of the trigger application, in order
	Body     ast.Expr
	Src      string
	Lemma    bool
	Quant    bool     // also handed to the solver as a quantified fact with the trigger as pattern (non-looping axioms only)
	Local    bool     // only instantiated in functions whose contract says "uses <name>"
	Induct   string   // induction variable (lemmas)
	Req      ast.Expr // lemma hypothesis (may be nil)
	Props    []string
}

// Guard declares which fields of a struct type are protected by its mutex field.
type Guard struct {
	Type, Mutex string
	Fields      map[string]bool
	Props       []string
	// shared <Type>: atomic f, ...; frozen g, ...; sync h, ...  (every field of the type must then be classified)
	Atomic, Frozen, Sync map[string]bool
	Complete             bool
	SharedProps          []string
}

type ContractSet struct {
	Guards  map[string]*Guard        // by struct type name
	Funcs   map[string]*FuncContract // key: package-relative normalised name, or full name for externs
	Defines map[string]*Define
	Specs   map[string]*SpecFun
	Axioms  []*Axiom
	Files   []string
}

func newContractSet() *ContractSet {
	return &ContractSet{Funcs: map[string]*FuncContract{}, Defines: map[string]*Define{}, Specs: map[string]*SpecFun{}, Guards: map[string]*Guard{}}
}

// desugar rewrites `a ==> b` and `a <==> b` (lowest precedence, ==> right
// associative) into implies(a,b) / iff(a,b) recursively inside brackets.
func desugar(s string) string {
	// first handle bracketed groups recursively
	var out strings.Builder
	i := 0
	for i < len(s) {
		c := s[i]
		if c == '"' {
			j := i + 1
			for j < len(s) && s[j] != '"' {
				if s[j] == '\\' {
					j++
				}
				j++
			}
			out.WriteString(s[i:min(j+1, len(s))])
			i = j + 1
			continue
		}
		if c == '(' || c == '[' {
			close := byte(')')
			if c == '[' {
				close = ']'
			}
			depth := 0
			j := i
			for ; j < len(s); j++ {
				if s[j] == '"' { // skip string literals: brackets inside them do not nest
					for j++; j < len(s) && s[j] != '"'; j++ {
						if s[j] == '\\' {
							j++
						}
					}
					continue
				}
				if s[j] == c {
					depth++
				} else if s[j] == close {
					depth--
					if depth == 0 {
						break
					}
				}
			}
			if j >= len(s) {
				out.WriteString(s[i:])
				break
			}
			inner := s[i+1 : j]
			// split call arguments at top-level commas and desugar each
			parts := splitTop(inner, ',')
			for k := range parts {
				parts[k] = desugar(parts[k])
			}
			out.WriteByte(c)
			out.WriteString(strings.Join(parts, ","))
			out.WriteByte(close)
			i = j + 1
			continue
		}
		out.WriteByte(c)
		i++
	}
	t := out.String()
	// now split at top level
	if parts := splitTopStr(t, "<==>"); len(parts) > 1 {
		r := desugarTop(parts[len(parts)-1])
		for k := len(parts) - 2; k >= 0; k-- {
			r = "iff(" + desugarTop(parts[k]) + ", " + r + ")"
		}
		return r
	}
	return desugarTop(t)
}

func desugarTop(t string) string {
	if parts := splitTopStr(t, "==>"); len(parts) > 1 {
		r := parts[len(parts)-1]
		for k := len(parts) - 2; k >= 0; k-- {
			r = "implies(" + parts[k] + ", " + r + ")"
		}
		return r
	}
	return t
}

func splitTop(s string, sep byte) []string {
	var parts []string
	depth := 0
	last := 0
	inStr := false
	for i := 0; i < len(s); i++ {
		switch {
		case s[i] == '"':
			inStr = !inStr
		case inStr:
		case s[i] == '(' || s[i] == '[' || s[i] == '{':
			depth++
		case s[i] == ')' || s[i] == ']' || s[i] == '}':
			depth--
		case s[i] == sep && depth == 0:
			parts = append(parts, s[last:i])
			last = i + 1
		}
	}
	return append(parts, s[last:])
}

func splitTopStr(s, sep string) []string {
	var parts []string
	depth := 0
	last := 0
	for i := 0; i < len(s); i++ {
		if s[i] == '"' { // string literal: no structure inside
			for i++; i < len(s) && s[i] != '"'; i++ {
				if s[i] == '\\' {
					i++
				}
			}
			continue
		}
		switch s[i] {
		case '(', '[', '{':
			depth++
		case ')', ']', '}':
			depth--
		}
		if depth == 0 && strings.HasPrefix(s[i:], sep) {
			// "<==>" contains "==>": when looking for "==>" skip if preceded by '<'
			if sep == "==>" && i > 0 && s[i-1] == '<' {
				continue
			}
			parts = append(parts, s[last:i])
			last = i + len(sep)
			i += len(sep) - 1
		}
	}
	return append(parts, s[last:])
}

func parseExpr(src, where string) (ast.Expr, error) {
	d := desugar(src)
	e, err := parser.ParseExpr(d)
	if err != nil {
		return nil, fmt.Errorf("%s: cannot parse %q (desugared %q): %v", where, src, d, err)
	}
	return e, nil
}

var reSig = regexp.MustCompile(`^([^\s(]*(?:\([^)]*\))?[^\s(]*)\s*(?:\((.*)\))?\s*(\S*)$`)

// parseContractFile reads directives. In Go files only lines starting with
// "//@" count; in .spec files every non-comment line counts.
func (cs *ContractSet) parseFile(path string) error {
	f, err := os.Open(path)
	if err != nil {
		return err
	}
	defer f.Close()
	cs.Files = append(cs.Files, path)
	isGo := strings.HasSuffix(path, ".go")
	sc := bufio.NewScanner(f)
	sc.Buffer(make([]byte, 1<<20), 1<<20)
	var lines []string
	var linenos []int
	n := 0
	for sc.Scan() {
		n++
		l := sc.Text()
		if isGo {
			t := strings.TrimSpace(l)
			if !strings.HasPrefix(t, "//@") {
				continue
			}
			l = strings.TrimPrefix(t, "//@")
		}
		if i := strings.Index(l, " -- "); i >= 0 {
			l = l[:i]
		}
		t := strings.TrimSpace(l)
		if t == "" || strings.HasPrefix(t, "#") || strings.HasPrefix(t, "--") {
			continue
		}
		if strings.HasPrefix(t, "|") && len(lines) > 0 {
			lines[len(lines)-1] += " " + strings.TrimSpace(t[1:])
			continue
		}
		lines = append(lines, t)
		linenos = append(linenos, n)
	}
	var cur *FuncContract
	var curLoop *LoopContract
	var props []string
	for i, l := range lines {
		where := fmt.Sprintf("%s:%d", path, linenos[i])
		kw, rest, _ := strings.Cut(l, " ")
		rest = strings.TrimSpace(rest)
		mk := func(kind string) (*Clause, error) {
			e, err := parseExpr(rest, where)
			if err != nil {
				return nil, err
			}
			return &Clause{Kind: kind, Src: rest, Expr: e, Props: append([]string(nil), props...), Line: where}, nil
		}
		if cur != nil && kw != "func" && kw != "extern" && kw != "define" && kw != "spec" && kw != "axiom" && kw != "lemma" && kw != "qaxiom" && kw != "laxiom" && kw != "guard" && kw != "shared" {
			cur.Src = append(cur.Src, l)
		}
		switch kw {
		case "func", "extern":
			name, params := parseSig(rest)
			cur = &FuncContract{Name: name, Params: params, Trusted: kw == "extern", Loops: map[int]*LoopContract{}, AllProps: map[string]bool{}, File: path, Src: []string{l}}
			if _, dup := cs.Funcs[name]; dup {
				return fmt.Errorf("%s: duplicate contract for %s", where, name)
			}
			cs.Funcs[name] = cur
			curLoop = nil
			props = nil
		case "guard":
			// guard Agent.mux [C14]: transactions, closed, handler      (properties of the duties in brackets)
			lhs, rhs, _ := strings.Cut(rest, ":")
			gprops := append([]string(nil), props...)
			if i := strings.Index(lhs, "["); i >= 0 {
				gprops = strings.Fields(strings.NewReplacer("[", " ", "]", " ", ",", " ").Replace(lhs[i:]))
				lhs = lhs[:i]
			}
			tn, mf, _ := strings.Cut(strings.TrimSpace(lhs), ".")
			g := &Guard{Type: tn, Mutex: mf, Fields: map[string]bool{}, Props: gprops}
			for _, f := range strings.Split(rhs, ",") {
				g.Fields[strings.TrimSpace(f)] = true
			}
			cs.Guards[tn] = g
			cur = nil
		case "shared":
			// shared Client: atomic rto, maxAttempts; frozen c, a; sync wg, mux
			lhs, rhs, _ := strings.Cut(rest, ":")
			sprops := append([]string(nil), props...)
			if i := strings.Index(lhs, "["); i >= 0 {
				sprops = strings.Fields(strings.NewReplacer("[", " ", "]", " ", ",", " ").Replace(lhs[i:]))
				lhs = lhs[:i]
			}
			tn := strings.TrimSpace(lhs)
			g := cs.Guards[tn]
			if g == nil {
				g = &Guard{Type: tn, Fields: map[string]bool{}}
				cs.Guards[tn] = g
			}
			g.Atomic, g.Frozen, g.Sync = map[string]bool{}, map[string]bool{}, map[string]bool{}
			g.Complete = true
			g.SharedProps = sprops
			for _, part := range strings.Split(rhs, ";") {
				kind, list, _ := strings.Cut(strings.TrimSpace(part), " ")
				for _, f := range strings.Split(list, ",") {
					f = strings.TrimSpace(f)
					if f == "" {
						continue
					}
					switch kind {
					case "atomic":
						g.Atomic[f] = true
					case "frozen":
						g.Frozen[f] = true
					case "sync":
						g.Sync[f] = true
					default:
						return fmt.Errorf("%s: shared: unknown class %q", where, kind)
					}
				}
			}
			cur = nil
		case "constructs":
			cur.Constructs = true
		case "callsunderlock":
			cur.CallsUnderLock = true
		case "uses":
			cur.Uses = append(cur.Uses, strings.Fields(rest)...)
		case "transparent":
			cur.Transparent = true
		case "pure":
			cur.Pure = true
			cur.HasAssigns = true
		case "allocates":
			cur.Allocates = true
		case "viewresult":
			cur.ViewResult = true
		case "resulttype":
			cur.ResultType = rest // dynamic type of the (interface) result, e.g. *hmac
		case "mode":
			cur.Mode = rest
		case "safety":
			cur.Safety = strings.Fields(rest)
			for _, p := range cur.Safety {
				cur.AllProps[p] = true
			}
		case "props":
			props = strings.Fields(rest)
			if cur != nil {
				for _, p := range props {
					cur.AllProps[p] = true
				}
			}
		case "requires":
			c, err := mk("requires")
			if err != nil {
				return err
			}
			cur.Requires = append(cur.Requires, c)
		case "ensures":
			c, err := mk("ensures")
			if err != nil {
				return err
			}
			cur.Ensures = append(cur.Ensures, c)
		case "derives":
			c, err := mk("derives")
			if err != nil {
				return err
			}
			cur.Derives = append(cur.Derives, c)
		case "deriveuse":
			c, err := mk("use")
			if err != nil {
				return err
			}
			cur.DeriveUses = append(cur.DeriveUses, c)
		case "assert":
			c, err := mk("assert")
			if err != nil {
				return err
			}
			cur.Asserts = append(cur.Asserts, c)
		case "use":
			// use lemma(args): at every return, assume the (separately proved) lemma instantiated at args
			c, err := mk("use")
			if err != nil {
				return err
			}
			if curLoop != nil {
				curLoop.Uses = append(curLoop.Uses, c)
			} else {
				cur.Asserts = append(cur.Asserts, c)
			}
		case "assigns":
			c := &Clause{Kind: "assigns", Src: rest, Props: append([]string(nil), props...), Line: where}
			for _, part := range splitTop(rest, ',') {
				part = strings.TrimSpace(part)
				if part == "" || part == "nothing" {
					continue
				}
				e, err := parseExpr(part, where)
				if err != nil {
					return err
				}
				c.Locs = append(c.Locs, e)
			}
			if curLoop != nil {
				curLoop.Assigns = append(curLoop.Assigns, c)
				curLoop.HasAssigns = true
			} else {
				cur.Assigns = append(cur.Assigns, c)
				cur.HasAssigns = true
			}
		case "decreases":
			c, err := mk("decreases")
			if err != nil {
				return err
			}
			if curLoop != nil {
				curLoop.Decreases = c
			} else {
				cur.Decreases = c
			}
		case "loop":
			var ord int
			fmt.Sscanf(rest, "%d", &ord)
			curLoop = &LoopContract{Ordinal: ord}
			cur.Loops[ord] = curLoop
		case "polls":
			// polls <field>: every way round the loop passes a select / receive on the channel held in that field
			if curLoop == nil {
				return fmt.Errorf("%s: polls outside loop", where)
			}
			curLoop.Polls = rest
			curLoop.PollsProps = append([]string(nil), props...)
		case "endloop":
			curLoop = nil
		case "invariant":
			c, err := mk("invariant")
			if err != nil {
				return err
			}
			if curLoop == nil {
				return fmt.Errorf("%s: invariant outside loop", where)
			}
			curLoop.Invariants = append(curLoop.Invariants, c)
		case "define":
			// define Name(a, b) = expr
			lhs, rhs, ok := strings.Cut(rest, "=")
			// careful: '=' may be part of '==' in rhs; Cut takes the first '=' which is the definition sign
			if !ok {
				return fmt.Errorf("%s: bad define", where)
			}
			name, params := parseSig(strings.TrimSpace(lhs))
			e, err := parseExpr(strings.TrimSpace(rhs), where)
			if err != nil {
				return err
			}
			cs.Defines[name] = &Define{Name: name, Params: params, Body: e, Src: rest}
			cur = nil
		case "spec":
			// spec name(a bytes, k int) int
			m := regexp.MustCompile(`^(\w+)\s*\((.*)\)\s*(\w+)$`).FindStringSubmatch(rest)
			if m == nil {
				return fmt.Errorf("%s: bad spec", where)
			}
			sf := &SpecFun{Name: m[1], Ret: m[3]}
			for _, p := range splitTop(m[2], ',') {
				fs := strings.Fields(p)
				if len(fs) == 2 {
					sf.Params = append(sf.Params, specParam{fs[0], fs[1]})
				}
			}
			cs.Specs[sf.Name] = sf
			cur = nil
		case "axiom", "lemma", "qaxiom", "laxiom":
			// axiom name(b bytes, k int) trigger start(b, k): expr
			m := regexp.MustCompile(`^(\w+)\s*\((.*?)\)\s*trigger\s+(\w+)\((.*?)\)\s*(?:induction\s+(\w+)\s*)?(?:requires\s+(.*?)\s*)?:\s*(.*)$`).FindStringSubmatch(rest)
			if m == nil {
				return fmt.Errorf("%s: bad %s: %s", where, kw, rest)
			}
			ax := &Axiom{Name: m[1], Trigger: m[3], Src: rest, Lemma: kw == "lemma", Induct: m[5], Props: append([]string(nil), props...), Quant: kw == "qaxiom", Local: kw == "laxiom"}
			for _, p := range splitTop(m[2], ',') {
				fs := strings.Fields(p)
				if len(fs) == 2 {
					ax.Params = append(ax.Params, specParam{fs[0], fs[1]})
				}
			}
			for _, a := range splitTop(m[4], ',') {
				ax.TrigArgs = append(ax.TrigArgs, strings.TrimSpace(a))
			}
			if m[6] != "" {
				e, err := parseExpr(m[6], where)
				if err != nil {
					return err
				}
				ax.Req = e
			}
			e, err := parseExpr(m[7], where)
			if err != nil {
				return err
			}
			ax.Body = e
			cs.Axioms = append(cs.Axioms, ax)
			cur = nil
		default:
			return fmt.Errorf("%s: unknown directive %q", where, kw)
		}
	}
	return nil
}

// parseSig splits "name(a, b)" into name and params. The name may itself
// contain a parenthesised receiver: "(*Message).Decode" or "(*Message).Add(m, t, v)".
func parseSig(s string) (string, []string) {
	s = strings.TrimSpace(s)
	if !strings.HasSuffix(s, ")") {
		return s, nil
	}
	// find the matching '(' of the trailing ')'
	depth := 0
	for i := len(s) - 1; i >= 0; i-- {
		switch s[i] {
		case ')':
			depth++
		case '(':
			depth--
			if depth == 0 {
				if i == 0 {
					return s, nil // "(*T)" alone – not expected
				}
				name := strings.TrimSpace(s[:i])
				if name == "" {
					return s, nil
				}
				var ps []string
				for _, p := range strings.Split(s[i+1:len(s)-1], ",") {
					p = strings.TrimSpace(p)
					if p != "" {
						ps = append(ps, p)
					}
				}
				return name, ps
			}
		}
	}
	return s, nil
}
