package main

import (
	"os"
	"fmt"
	"math/big"
	"strings"
)

// triggerOps: built-in uninterpreted operators that may trigger lemmas.
var triggerOps = map[string]bool{"xor8": true, "xor16": true, "xor32": true, "xor64": true}

// groundApps collects applications of sf_<name> whose arguments contain no bound variables.
func groundApps(ts []*Term) map[string][]*Term {
	out := map[string][]*Term{}
	seen := map[string]bool{}
	var rec func(t *Term, bound map[string]bool)
	rec = func(t *Term, bound map[string]bool) {
		switch t.Op {
		case "forall", "exists":
			nb := map[string]bool{}
			for k := range bound {
				nb[k] = true
			}
			for _, v := range t.Bound {
				nb[v.Name] = true
			}
			rec(t.Args[0], nb)
			return
		}
		for _, a := range t.Args {
			rec(a, bound)
		}
		if strings.HasPrefix(t.Op, "sf_") || triggerOps[t.Op] {
			fs := map[string]string{}
			freeSyms(t, fs)
			for k := range fs {
				if bound[k] {
					return
				}
			}
			s := t.String()
			if !seen[s] {
				seen[s] = true
				name := strings.TrimPrefix(t.Op, "sf_")
				out[name] = append(out[name], t)
			}
		}
	}
	for _, t := range ts {
		rec(t, map[string]bool{})
	}
	return out
}

// instantiate adds instances of spec axioms (and proved lemmas) at the ground
// spec-function applications occurring in the obligation (fuel rounds).
// quantified form of a non-looping axiom: forall params. body, pattern = the trigger application.
func (p *Program) quantified(x *Exec, ax *Axiom) *Term {
	sf := p.spec.Specs[ax.Trigger]
	if sf == nil {
		return nil
	}
	var bound, args []*Term
	for i, prm := range sf.Params {
		n := ax.Name + "." + prm.Name
		if i < len(ax.TrigArgs) {
			n = ax.Name + "." + ax.TrigArgs[i]
		}
		switch prm.Typ {
		case "bytes":
			bound = append(bound, Sym(n+".a", SArr), Sym(n+".o", SInt))
		case "bytesn":
			bound = append(bound, Sym(n+".a", SArr), Sym(n+".o", SInt), Sym(n+".n", SInt))
		case "bool":
			bound = append(bound, Sym(n, SBool))
		case "arr":
			bound = append(bound, Sym(n, SArr))
		default:
			bound = append(bound, Sym(n, SInt))
		}
	}
	args = bound
	app := App("sf_"+sf.Name, specRet(sf.Ret), args...)
	body := p.instance(x, ax, app)
	if body == nil {
		return nil
	}
	// A sequence parameter stands for a real slice: its length is never negative. Without this guard an
	// axiom such as 0 <= firstidx(s,t) <= len(s) is inconsistent when quantified over all integers.
	var guards []*Term
	for _, b := range bound {
		if strings.HasSuffix(b.Name, ".n") && b.Sort == SInt {
			guards = append(guards, Ge(b, Int(0)))
		}
	}
	if len(guards) > 0 && os.Getenv("STUNVC_SELFTEST_NO_LEN_GUARD") == "" { // the variable re-creates a known-inconsistent axiom for the selftest of the consistency probes
		body = Implies(And(guards...), body)
	}
	return Forall(bound, body, app)
}

func (p *Program) instantiate(ob *Obligation) {
	const fuel = 2
	if ob.NBase == 0 {
		ob.NBase = len(ob.Hyps)
	}
	{
		x := &Exec{p: p, names: map[string]int{}}
		used := map[string]bool{}
		for _, t := range append(append([]*Term(nil), ob.Hyps...), ob.Goal) {
			t.walk(func(y *Term) {
				if strings.HasPrefix(y.Op, "sf_") {
					used[y.Op[3:]] = true
				}
			})
		}
		for _, ax := range p.spec.Axioms {
			if ax.Quant && used[ax.Trigger] {
				if q := p.quantified(x, ax); q != nil {
					ob.Hyps = append(ob.Hyps, q)
				}
			}
		}
	}
	done := map[string]bool{}
	x := &Exec{p: p, names: map[string]int{}}
	terms := append(append([]*Term(nil), ob.Hyps...), ob.Goal)
	for round := 0; round < fuel; round++ {
		apps := groundApps(terms)
		var added []*Term
		for _, ax := range p.spec.Axioms {
			if ax.Local && !hasProp(ob.Uses, ax.Name) {
				continue
			}
			for _, app := range apps[ax.Trigger] {
				key := ax.Name + "|" + app.String()
				if done[key] {
					continue
				}
				done[key] = true
				if t := p.instance(x, ax, app); t != nil && !t.IsTrue() {
					added = append(added, t)
				}
			}
		}
		if round == 0 {
			added = append(added, p.extensionality(apps)...)
		}
		if len(added) == 0 {
			break
		}
		ob.Hyps = append(ob.Hyps, added...)
		terms = added
	}
}

// extensionality: a spec function with byte-sequence parameters is a function of the
// sequences, not of the arrays that hold them. For every pair of ground applications
//
//	f(a1,o1,n1,..) , f(a2,o2,n2,..)
//
// emit  f1 == f2  ||  n1 != n2  ||  (0 <= d < n1 && a1[o1+d] != a2[o2+d])  ||  other arguments differ
// with a fresh witness d per sequence parameter (the skolemised form of "equal sequences give equal results").
func (p *Program) extensionality(apps map[string][]*Term) []*Term {
	var out []*Term
	for name, list := range apps {
		sf := p.spec.Specs[name]
		if sf == nil {
			continue
		}
		hasSeq := false
		for _, prm := range sf.Params {
			if prm.Typ == "bytesn" {
				hasSeq = true
			}
		}
		if !hasSeq || len(list) < 2 {
			continue
		}
		pairs := 0
		for i := 0; i < len(list); i++ {
			for j := i + 1; j < len(list); j++ {
				if pairs >= 40 {
					break
				}
				pairs++
				a, b := list[i], list[j]
				disj := []*Term{Eq(a, b)}
				k := 0
				for _, prm := range sf.Params {
					switch prm.Typ {
					case "bytesn":
						d := Sym(fresh("ext.d"), SInt)
						disj = append(disj, Ne(a.Args[k+2], b.Args[k+2]),
							And(Le(Int(0), d), Lt(d, a.Args[k+2]), Ne(Select(a.Args[k], Add(a.Args[k+1], d)), Select(b.Args[k], Add(b.Args[k+1], d)))))
						k += 3
					case "bytes":
						disj = append(disj, Ne(a.Args[k], b.Args[k]), Ne(a.Args[k+1], b.Args[k+1]))
						k += 2
					default:
						disj = append(disj, Ne(a.Args[k], b.Args[k]))
						k++
					}
				}
				out = append(out, Or(disj...))
			}
		}
	}
	return out
}

// instance evaluates an axiom body with its parameters bound to the arguments of a trigger application.
func (p *Program) instance(x *Exec, ax *Axiom, app *Term) (res *Term) {
	sf := p.spec.Specs[ax.Trigger]
	if sf == nil {
		if !triggerOps[ax.Trigger] {
			return nil
		}
		sf = &SpecFun{Name: ax.Trigger, Params: []specParam{{"a", "int"}, {"b", "int"}}, Ret: "int"}
	}
	defer func() {
		if r := recover(); r != nil {
			if ee, ok := r.(evalErr); ok {
				panic(fmt.Sprintf("axiom %s: %s", ax.Name, ee.msg))
			}
			panic(r)
		}
	}()
	// map trigger argument names to the application's argument terms
	byName := map[string][]*Term{}
	k := 0
	for i, prm := range sf.Params {
		n := 1
		switch prm.Typ {
		case "bytes":
			n = 2
		case "bytesn":
			n = 3
		}
		if i < len(ax.TrigArgs) {
			byName[ax.TrigArgs[i]] = app.Args[k : k+n]
		}
		k += n
	}
	vars := map[string]Value{}
	for _, prm := range ax.Params {
		ts, ok := byName[prm.Name]
		if !ok {
			return nil
		}
		switch prm.Typ {
		case "bytes":
			vars[prm.Name] = Sl{Arr: ts[0], O: ts[1], L: Int(1 << 40), C: Int(1 << 40), R: Int(-2)}
		case "bytesn":
			vars[prm.Name] = Sl{Arr: ts[0], O: ts[1], L: ts[2], C: ts[2], R: Int(-2)}
		case "arr":
			vars[prm.Name] = Ar{A: ts[0], N: 1 << 30}
		default:
			vars[prm.Name] = Sc{ts[0]}
		}
	}
	// bit-vector lemmas are instantiated over Int terms only for values in the unsigned range of the width
	guard := tTrue
	for _, prm := range ax.Params {
		var w uint
		if n, _ := fmt.Sscanf(prm.Typ, "bv%d", &w); n == 1 {
			t := scT(vars[prm.Name])
			guard = And(guard, Le(Int(0), t), Lt(t, BigInt(new(big.Int).Lsh(big.NewInt(1), w))))
		}
	}
	st := &State{hypSet: map[string]bool{}, heap: &Heap{fam: map[string]*Term{}, alloc: Sym("alloc@0", SArrB)}, ghost: map[string]*Term{}}
	c := &evalCtx{x: x, st: st, heap: st.heap, vars: vars, facts: false, where: "axiom " + ax.Name}
	body := c.term(ax.Body)
	if ax.Req != nil {
		body = Implies(c.term(ax.Req), body)
	}
	return Implies(guard, body)
}

// lemmaObligations: proof duties for lemmas (induction), generated once per run.
func (p *Program) lemmaObligations(property string) ([]*Obligation, []string) {
	var obs []*Obligation
	var errs []string
	x := &Exec{p: p, names: map[string]int{}}
	for _, ax := range p.spec.Axioms {
		if !ax.Lemma {
			continue
		}
		if property != "" && !hasProp(ax.Props, property) {
			continue
		}
		lo, err := p.lemmaDuty(x, ax)
		if err != nil {
			errs = append(errs, err.Error())
			continue
		}
		obs = append(obs, lo...)
	}
	return obs, errs
}

// lemmaDuty: a lemma "forall params. Req ==> Body" is proved either directly or by
// induction on an int parameter k >= 0: base k=0 and step (k -> k+1) with the
// induction hypothesis for k (all other parameters fixed).
func (p *Program) lemmaDuty(x *Exec, ax *Axiom) (obs []*Obligation, err error) {
	defer func() {
		if r := recover(); r != nil {
			if ee, ok := r.(evalErr); ok {
				err = fmt.Errorf("lemma %s: %s", ax.Name, ee.msg)
				return
			}
			panic(r)
		}
	}()
	mk := func(suffix string, over map[string]*Term) (*Term, *Term) {
		vars := map[string]Value{}
		for _, prm := range ax.Params {
			switch prm.Typ {
			case "bytes":
				vars[prm.Name] = Sl{Arr: Sym("L."+prm.Name+".a", SArr), O: Sym("L."+prm.Name+".o", SInt), L: Int(1 << 40), C: Int(1 << 40), R: Int(-2)}
			case "bytesn":
				vars[prm.Name] = Sl{Arr: Sym("L."+prm.Name+".a", SArr), O: Sym("L."+prm.Name+".o", SInt), L: Sym("L."+prm.Name+".n", SInt), C: Sym("L."+prm.Name+".n", SInt), R: Int(-2)}
			case "arr":
				vars[prm.Name] = Ar{A: Sym("L."+prm.Name, SArr), N: 1 << 30}
			case "bool":
				vars[prm.Name] = Sc{Sym("L."+prm.Name, SBool)}
			case "bv8", "bv16", "bv32", "bv64":
				w := 0
				fmt.Sscanf(prm.Typ, "bv%d", &w)
				vars[prm.Name] = Sc{Sym("L."+prm.Name, bvSort(w))}
			default:
				if t, ok := over[prm.Name]; ok {
					vars[prm.Name] = Sc{t}
				} else {
					vars[prm.Name] = Sc{Sym("L."+prm.Name, SInt)}
				}
			}
		}
		st := &State{hypSet: map[string]bool{}, heap: &Heap{fam: map[string]*Term{}, alloc: Sym("alloc@0", SArrB)}, ghost: map[string]*Term{}}
		c := &evalCtx{x: x, st: st, heap: st.heap, vars: vars, facts: false, where: "lemma " + ax.Name}
		req := tTrue
		if ax.Req != nil {
			req = c.term(ax.Req)
		}
		return req, c.term(ax.Body)
	}
	newOb := func(kind string, hyps []*Term, goal *Term) *Obligation {
		ob := &Obligation{Name: "lemma/" + ax.Name + "/" + kind, Func: "lemma " + ax.Name, Kind: "lemma-" + kind, Props: ax.Props,
			Descr: ax.Src, Hyps: hyps, Goal: goal, Tags: p.tags}
		// lemmas may use axioms (definitions) but not themselves
		saved := p.spec.Axioms
		var defs []*Axiom
		for _, a := range saved {
			if !a.Lemma || a.Name < ax.Name && a != ax {
				if a != ax {
					defs = append(defs, a)
				}
			}
		}
		p.spec.Axioms = defs
		plain := &Obligation{Name: ob.Name, Func: ob.Func, Kind: ob.Kind, Props: ob.Props, Descr: ob.Descr, Tags: ob.Tags,
			Hyps: append([]*Term(nil), ob.Hyps...), Goal: ob.Goal}
		p.instantiate(ob)
		ob.prep = func() {
			// a lemma may use definitions and the lemmas before it, never itself (the same restriction as above)
			saved := p.spec.Axioms
			p.spec.Axioms = defs
			defer func() { p.spec.Axioms = saved }()
			if alt := skolemVariant(plain); alt != nil {
				p.instantiate(alt)
				ob.Alt = alt
			}
		}
		p.spec.Axioms = saved
		return ob
	}
	if ax.Induct == "" {
		req, body := mk("", nil)
		return []*Obligation{newOb("direct", []*Term{req}, body)}, nil
	}
	k := Sym("L."+ax.Induct, SInt)
	req0, body0 := mk("base", map[string]*Term{ax.Induct: Int(0)})
	reqK, bodyK := mk("ih", map[string]*Term{ax.Induct: k})
	reqS, bodyS := mk("step", map[string]*Term{ax.Induct: Add(k, Int(1))})
	base := newOb("base", []*Term{req0}, body0)
	step := newOb("step", []*Term{Ge(k, Int(0)), Implies(reqK, bodyK), reqS}, bodyS)
	return []*Obligation{base, step}, nil
}

// axiomSmokes: consistency probes for the quantified axioms (each alone and all together): a specification
// whose axioms are refutable makes every proof vacuous.
func (p *Program) axiomSmokes() []*smoke {
	x := &Exec{p: p, names: map[string]int{}}
	var all []*Term
	var out []*smoke
	for _, ax := range p.spec.Axioms {
		if !ax.Quant || ax.Lemma {
			continue
		}
		q := p.quantified(x, ax)
		if q == nil {
			continue
		}
		all = append(all, q)
		out = append(out, &smoke{name: "axiom-consistency/" + ax.Name, after: []*Term{q}})
		// stress instances: the body at corner values of its integer variables (-1, 0, unconstrained); a
		// refutable instance means no function satisfies the axiom
		if q.Op == "forall" && len(q.Args) > 0 {
			var ints []*Term
			for _, b := range q.Bound {
				if b.Sort == SInt {
					ints = append(ints, b)
				}
			}
			combos := 1
			for range ints {
				combos *= 3
			}
			if combos > 243 {
				combos = 243
			}
			var insts []*Term
			for c := 0; c < combos; c++ {
				m := map[string]*Term{}
				k := c
				for _, b := range ints {
					switch k % 3 {
					case 0:
						m[b.Name] = Int(-1)
					case 1:
						m[b.Name] = Int(0)
					}
					k /= 3
				}
				insts = append(insts, subst(q.Args[0], m))
			}
			for c, in := range insts {
				out = append(out, &smoke{name: fmt.Sprintf("axiom-consistency/%s/corner%d", ax.Name, c), after: []*Term{in}})
			}
		}
	}
	if len(all) > 1 {
		out = append(out, &smoke{name: "axiom-consistency/all", after: all})
	}
	return out
}
