package main

import (
	"fmt"
	"strings"
)

// groundApps collects applications of sf_<name> whose arguments contain no bound variables.
func groundApps(ts []*Term) map[string][]*Term {
	out := map[string][]*Term{}
	seen := map[string]bool{}
	var rec func(t *Term, bound map[string]bool)
	rec = func(t *Term, bound map[string]bool) {
		switch t.Op {
		case "forall", "exists":
			nb := map[string]bool{}
			for k := range bound {
				nb[k] = true
			}
			for _, v := range t.Bound {
				nb[v.Name] = true
			}
			rec(t.Args[0], nb)
			return
		}
		for _, a := range t.Args {
			rec(a, bound)
		}
		if strings.HasPrefix(t.Op, "sf_") {
			fs := map[string]string{}
			freeSyms(t, fs)
			for k := range fs {
				if bound[k] {
					return
				}
			}
			s := t.String()
			if !seen[s] {
				seen[s] = true
				out[t.Op[3:]] = append(out[t.Op[3:]], t)
			}
		}
	}
	for _, t := range ts {
		rec(t, map[string]bool{})
	}
	return out
}

// instantiate adds instances of spec axioms (and proved lemmas) at the ground
// spec-function applications occurring in the obligation (fuel rounds).
func (p *Program) instantiate(ob *Obligation) {
	const fuel = 2
	done := map[string]bool{}
	x := &Exec{p: p, names: map[string]int{}}
	terms := append(append([]*Term(nil), ob.Hyps...), ob.Goal)
	for round := 0; round < fuel; round++ {
		apps := groundApps(terms)
		var added []*Term
		for _, ax := range p.spec.Axioms {
			for _, app := range apps[ax.Trigger] {
				key := ax.Name + "|" + app.String()
				if done[key] {
					continue
				}
				done[key] = true
				if t := p.instance(x, ax, app); t != nil && !t.IsTrue() {
					added = append(added, t)
				}
			}
		}
		if len(added) == 0 {
			break
		}
		ob.Hyps = append(ob.Hyps, added...)
		terms = added
	}
}

// instance evaluates an axiom body with its parameters bound to the arguments of a trigger application.
func (p *Program) instance(x *Exec, ax *Axiom, app *Term) (res *Term) {
	sf := p.spec.Specs[ax.Trigger]
	if sf == nil {
		return nil
	}
	defer func() {
		if r := recover(); r != nil {
			if ee, ok := r.(evalErr); ok {
				panic(fmt.Sprintf("axiom %s: %s", ax.Name, ee.msg))
			}
			panic(r)
		}
	}()
	// map trigger argument names to the application's argument terms
	byName := map[string][]*Term{}
	k := 0
	for i, prm := range sf.Params {
		n := 1
		switch prm.Typ {
		case "bytes":
			n = 2
		case "bytesn":
			n = 3
		}
		if i < len(ax.TrigArgs) {
			byName[ax.TrigArgs[i]] = app.Args[k : k+n]
		}
		k += n
	}
	vars := map[string]Value{}
	for _, prm := range ax.Params {
		ts, ok := byName[prm.Name]
		if !ok {
			return nil
		}
		switch prm.Typ {
		case "bytes":
			vars[prm.Name] = Sl{Arr: ts[0], O: ts[1], L: Int(1 << 40), C: Int(1 << 40), R: Int(-2)}
		case "bytesn":
			vars[prm.Name] = Sl{Arr: ts[0], O: ts[1], L: ts[2], C: ts[2], R: Int(-2)}
		case "arr":
			vars[prm.Name] = Ar{A: ts[0], N: 1 << 30}
		default:
			vars[prm.Name] = Sc{ts[0]}
		}
	}
	st := &State{hypSet: map[string]bool{}, heap: &Heap{fam: map[string]*Term{}, alloc: Sym("alloc@0", SArrB)}, ghost: map[string]*Term{}}
	c := &evalCtx{x: x, st: st, heap: st.heap, vars: vars, facts: false, where: "axiom " + ax.Name}
	body := c.term(ax.Body)
	if ax.Req != nil {
		body = Implies(c.term(ax.Req), body)
	}
	return body
}

// lemmaObligations: proof duties for lemmas (induction), generated once per run.
func (p *Program) lemmaObligations(property string) ([]*Obligation, []string) {
	var obs []*Obligation
	var errs []string
	x := &Exec{p: p, names: map[string]int{}}
	for _, ax := range p.spec.Axioms {
		if !ax.Lemma {
			continue
		}
		if property != "" && !hasProp(ax.Props, property) {
			continue
		}
		lo, err := p.lemmaDuty(x, ax)
		if err != nil {
			errs = append(errs, err.Error())
			continue
		}
		obs = append(obs, lo...)
	}
	return obs, errs
}

// lemmaDuty: a lemma "forall params. Req ==> Body" is proved either directly or by
// induction on an int parameter k >= 0: base k=0 and step (k -> k+1) with the
// induction hypothesis for k (all other parameters fixed).
func (p *Program) lemmaDuty(x *Exec, ax *Axiom) (obs []*Obligation, err error) {
	defer func() {
		if r := recover(); r != nil {
			if ee, ok := r.(evalErr); ok {
				err = fmt.Errorf("lemma %s: %s", ax.Name, ee.msg)
				return
			}
			panic(r)
		}
	}()
	mk := func(suffix string, over map[string]*Term) (*Term, *Term) {
		vars := map[string]Value{}
		for _, prm := range ax.Params {
			switch prm.Typ {
			case "bytes":
				vars[prm.Name] = Sl{Arr: Sym("L."+prm.Name+".a", SArr), O: Sym("L."+prm.Name+".o", SInt), L: Int(1 << 40), C: Int(1 << 40), R: Int(-2)}
			case "bytesn":
				vars[prm.Name] = Sl{Arr: Sym("L."+prm.Name+".a", SArr), O: Sym("L."+prm.Name+".o", SInt), L: Sym("L."+prm.Name+".n", SInt), C: Sym("L."+prm.Name+".n", SInt), R: Int(-2)}
			case "arr":
				vars[prm.Name] = Ar{A: Sym("L."+prm.Name, SArr), N: 1 << 30}
			case "bool":
				vars[prm.Name] = Sc{Sym("L."+prm.Name, SBool)}
			case "bv8", "bv16", "bv32":
				w := 0
				fmt.Sscanf(prm.Typ, "bv%d", &w)
				vars[prm.Name] = Sc{Sym("L."+prm.Name, bvSort(w))}
			default:
				if t, ok := over[prm.Name]; ok {
					vars[prm.Name] = Sc{t}
				} else {
					vars[prm.Name] = Sc{Sym("L."+prm.Name, SInt)}
				}
			}
		}
		st := &State{hypSet: map[string]bool{}, heap: &Heap{fam: map[string]*Term{}, alloc: Sym("alloc@0", SArrB)}, ghost: map[string]*Term{}}
		c := &evalCtx{x: x, st: st, heap: st.heap, vars: vars, facts: false, where: "lemma " + ax.Name}
		req := tTrue
		if ax.Req != nil {
			req = c.term(ax.Req)
		}
		return req, c.term(ax.Body)
	}
	newOb := func(kind string, hyps []*Term, goal *Term) *Obligation {
		ob := &Obligation{Name: "lemma/" + ax.Name + "/" + kind, Func: "lemma " + ax.Name, Kind: "lemma-" + kind, Props: ax.Props,
			Descr: ax.Src, Hyps: hyps, Goal: goal, Tags: p.tags}
		// lemmas may use axioms (definitions) but not themselves
		saved := p.spec.Axioms
		var defs []*Axiom
		for _, a := range saved {
			if !a.Lemma || a.Name < ax.Name && a != ax {
				if a != ax {
					defs = append(defs, a)
				}
			}
		}
		p.spec.Axioms = defs
		p.instantiate(ob)
		p.spec.Axioms = saved
		return ob
	}
	if ax.Induct == "" {
		req, body := mk("", nil)
		return []*Obligation{newOb("direct", []*Term{req}, body)}, nil
	}
	k := Sym("L."+ax.Induct, SInt)
	req0, body0 := mk("base", map[string]*Term{ax.Induct: Int(0)})
	reqK, bodyK := mk("ih", map[string]*Term{ax.Induct: k})
	reqS, bodyS := mk("step", map[string]*Term{ax.Induct: Add(k, Int(1))})
	base := newOb("base", []*Term{req0}, body0)
	step := newOb("step", []*Term{Ge(k, Int(0)), Implies(reqK, bodyK), reqS}, bodyS)
	return []*Obligation{base, step}, nil
}
