package main

import (
	"sync/atomic"
	"crypto/sha256"
	"fmt"
	"math/big"
	"sort"
	"strings"
)

// Sorts are SMT-LIB sort strings.
const (
	SInt  = "Int"
	SBool = "Bool"
	SArr  = "(Array Int Int)"
	SArr2 = "(Array Int (Array Int Int))"
	SArrB = "(Array Int Bool)"
)

func arrSort(idx, elem string) string { return "(Array " + idx + " " + elem + ")" }

func elemSort(arr string) string {
	// "(Array I E)" -> E
	s := strings.TrimSuffix(strings.TrimPrefix(arr, "(Array "), ")")
	depth := 0
	for i := 0; i < len(s); i++ {
		switch s[i] {
		case '(':
			depth++
		case ')':
			depth--
		case ' ':
			if depth == 0 {
				return s[i+1:]
			}
		}
	}
	panic("elemSort: " + arr)
}

func idxSort(arr string) string {
	s := strings.TrimSuffix(strings.TrimPrefix(arr, "(Array "), ")")
	depth := 0
	for i := 0; i < len(s); i++ {
		switch s[i] {
		case '(':
			depth++
		case ')':
			depth--
		case ' ':
			if depth == 0 {
				return s[:i]
			}
		}
	}
	panic("idxSort: " + arr)
}

// Term is an SMT term.
type Term struct {
	Op   string // "sym", "int", "true", "false", or an SMT operator / function name
	Name string // for sym
	Val  *big.Int
	Args []*Term
	Sort string
	// quantifier support
	Bound []*Term // bound variables (syms) for forall/exists
	Pats  []*Term
	str   atomic.Pointer[string] // cached text; terms are shared between the solver workers
}

var (
	tTrue  = &Term{Op: "true", Sort: SBool}
	tFalse = &Term{Op: "false", Sort: SBool}
)

func Int(v int64) *Term       { return &Term{Op: "int", Val: big.NewInt(v), Sort: SInt} }
func BigInt(v *big.Int) *Term { return &Term{Op: "int", Val: new(big.Int).Set(v), Sort: SInt} }
// tErr: the value of a contract clause that could not be evaluated (never assumed, never a proof goal)
var tErr = &Term{Op: "false", Sort: SBool, Name: "contract-error"}

// Strcat builds the concatenation of two abstract strings in a canonical, right-nested form: concatenation is
// associative and "" (id 0) is its unit, so (a+b)+c and a+(b+c) are the same term whichever way the code groups them.
func Strcat(a, b *Term) *Term {
	if a.IsInt() && a.Val.Sign() == 0 {
		return b
	}
	if b.IsInt() && b.Val.Sign() == 0 {
		return a
	}
	if a.Op == "strcat" && len(a.Args) == 2 {
		return Strcat(a.Args[0], Strcat(a.Args[1], b))
	}
	return App("strcat", SInt, a, b)
}

func Sym(name, sort string) *Term {
	return &Term{Op: "sym", Name: name, Sort: sort}
}
func Bool(b bool) *Term {
	if b {
		return tTrue
	}
	return tFalse
}

func (t *Term) IsInt() bool   { return t.Op == "int" }
func (t *Term) IsTrue() bool  { return t.Op == "true" }
func (t *Term) IsFalse() bool { return t.Op == "false" }
func (t *Term) IsBV() bool    { return strings.HasPrefix(t.Sort, "(_ BitVec") }

func (t *Term) String() string {
	if p := t.str.Load(); p != nil {
		return *p
	}
	var s string
	switch t.Op {
	case "sym":
		s = "|" + t.Name + "|"
	case "int":
		if t.Val.Sign() < 0 {
			s = "(- " + new(big.Int).Neg(t.Val).String() + ")"
		} else {
			s = t.Val.String()
		}
	case "true", "false":
		s = t.Op
	case "bv":
		w := bvWidth(t.Sort)
		s = fmt.Sprintf("(_ bv%s %d)", t.Val.String(), w)
	case "forall", "exists":
		var b strings.Builder
		b.WriteString("(" + t.Op + " (")
		for _, v := range t.Bound {
			b.WriteString("(|" + v.Name + "| " + v.Sort + ")")
		}
		b.WriteString(") ")
		if len(t.Pats) > 0 {
			b.WriteString("(! " + t.Args[0].String())
			for _, p := range t.Pats {
				b.WriteString(" :pattern (" + p.String() + ")")
			}
			b.WriteString(")")
		} else {
			b.WriteString(t.Args[0].String())
		}
		b.WriteString(")")
		s = b.String()
	default:
		var b strings.Builder
		b.WriteString("(" + t.Op)
		for _, a := range t.Args {
			b.WriteString(" ")
			b.WriteString(a.String())
		}
		b.WriteString(")")
		s = b.String()
	}
	t.str.Store(&s)
	return s
}

func bvWidth(sort string) int {
	var w int
	fmt.Sscanf(sort, "(_ BitVec %d)", &w)
	return w
}

func App(op, sort string, args ...*Term) *Term {
	return &Term{Op: op, Sort: sort, Args: args}
}

func same(a, b *Term) bool { return a == b || a.String() == b.String() }

// ---- arithmetic with light simplification ----

// linear normal form: sum of coeff*atom + const, atoms ordered by first appearance.
type linForm struct {
	atoms []*Term
	coef  map[string]*big.Int
	c     *big.Int
}

func (l *linForm) add(t *Term, k *big.Int) {
	switch {
	case t.IsInt():
		l.c.Add(l.c, new(big.Int).Mul(k, t.Val))
	case t.Op == "+" && t.Sort == SInt:
		for _, a := range t.Args {
			l.add(a, k)
		}
	case t.Op == "-" && t.Sort == SInt && len(t.Args) == 1:
		l.add(t.Args[0], new(big.Int).Neg(k))
	case t.Op == "-" && t.Sort == SInt && len(t.Args) >= 2:
		l.add(t.Args[0], k)
		nk := new(big.Int).Neg(k)
		for _, a := range t.Args[1:] {
			l.add(a, nk)
		}
	case t.Op == "*" && len(t.Args) == 2 && t.Args[0].IsInt():
		l.add(t.Args[1], new(big.Int).Mul(k, t.Args[0].Val))
	case t.Op == "*" && len(t.Args) == 2 && t.Args[1].IsInt():
		l.add(t.Args[0], new(big.Int).Mul(k, t.Args[1].Val))
	default:
		key := t.String()
		if c, ok := l.coef[key]; ok {
			c.Add(c, k)
		} else {
			l.coef[key] = new(big.Int).Set(k)
			l.atoms = append(l.atoms, t)
		}
	}
}

func (l *linForm) build() *Term {
	var res *Term
	one := big.NewInt(1)
	var negs []*Term
	for _, a := range l.atoms {
		k := l.coef[a.String()]
		if k.Sign() == 0 {
			continue
		}
		var t *Term
		ak := new(big.Int).Abs(k)
		if ak.Cmp(one) == 0 {
			t = a
		} else {
			t = App("*", SInt, BigInt(ak), a)
		}
		if k.Sign() < 0 {
			negs = append(negs, t)
			continue
		}
		if res == nil {
			res = t
		} else {
			res = App("+", SInt, res, t)
		}
	}
	if res == nil {
		if len(negs) == 0 {
			return BigInt(l.c)
		}
		res = BigInt(l.c)
		for _, n := range negs {
			res = App("-", SInt, res, n)
		}
		return res
	}
	for _, n := range negs {
		res = App("-", SInt, res, n)
	}
	if l.c.Sign() != 0 {
		res = App("+", SInt, res, BigInt(l.c))
	}
	return res
}

func linNorm(parts []*Term, signs []int64) *Term {
	l := &linForm{coef: map[string]*big.Int{}, c: big.NewInt(0)}
	for i, p := range parts {
		l.add(p, big.NewInt(signs[i]))
	}
	return l.build()
}

func Add(a, b *Term) *Term {
	if a.IsBV() || b.IsBV() {
		return App("bvadd", a.Sort, a, b)
	}
	return linNorm([]*Term{a, b}, []int64{1, 1})
}

func Neg(a *Term) *Term {
	return linNorm([]*Term{a}, []int64{-1})
}

func Sub(a, b *Term) *Term {
	return linNorm([]*Term{a, b}, []int64{1, -1})
}

func Mul(a, b *Term) *Term {
	if a.IsInt() && b.IsInt() {
		return BigInt(new(big.Int).Mul(a.Val, b.Val))
	}
	if b.IsInt() && !a.IsInt() {
		a, b = b, a
	}
	if a.IsInt() {
		if a.Val.Sign() == 0 {
			return Int(0)
		}
		if a.Val.Cmp(big.NewInt(1)) == 0 {
			return b
		}
	}
	return App("*", SInt, a, b)
}

// Div/Mod are SMT-LIB (Euclidean) div and mod.
func Div(a, b *Term) *Term {
	if a.IsInt() && b.IsInt() && b.Val.Sign() > 0 {
		q, _ := new(big.Int).DivMod(a.Val, b.Val, new(big.Int))
		return BigInt(q)
	}
	return App("div", SInt, a, b)
}

func Mod(a, b *Term) *Term {
	if a.IsInt() && b.IsInt() && b.Val.Sign() > 0 {
		_, m := new(big.Int).DivMod(a.Val, b.Val, new(big.Int))
		return BigInt(m)
	}
	return App("mod", SInt, a, b)
}

func cmpFold(op string, a, b *Term) *Term {
	if a.IsInt() && b.IsInt() {
		c := a.Val.Cmp(b.Val)
		switch op {
		case "<":
			return Bool(c < 0)
		case "<=":
			return Bool(c <= 0)
		case ">":
			return Bool(c > 0)
		case ">=":
			return Bool(c >= 0)
		}
	}
	if same(a, b) {
		return Bool(op == "<=" || op == ">=")
	}
	return App(op, SBool, a, b)
}

func Lt(a, b *Term) *Term { return cmpFold("<", a, b) }
func Le(a, b *Term) *Term { return cmpFold("<=", a, b) }
func Gt(a, b *Term) *Term { return cmpFold(">", a, b) }
func Ge(a, b *Term) *Term { return cmpFold(">=", a, b) }

func Eq(a, b *Term) *Term {
	if a.Sort != b.Sort {
		panic(fmt.Sprintf("Eq: sort mismatch %s : %s vs %s : %s", a, a.Sort, b, b.Sort))
	}
	if same(a, b) {
		return tTrue
	}
	if a.IsInt() && b.IsInt() {
		return Bool(a.Val.Cmp(b.Val) == 0)
	}
	if a.Sort == SInt && regionDistinct(a, b) {
		return tFalse // a freshly allocated region differs from every region that existed before it
	}
	if a.Sort == SBool {
		if a.IsTrue() {
			return b
		}
		if b.IsTrue() {
			return a
		}
		if a.IsFalse() {
			return Not(b)
		}
		if b.IsFalse() {
			return Not(a)
		}
	}
	return App("=", SBool, a, b)
}

func Ne(a, b *Term) *Term { return Not(Eq(a, b)) }

func Not(a *Term) *Term {
	switch {
	case a.IsTrue():
		return tFalse
	case a.IsFalse():
		return tTrue
	case a.Op == "not":
		return a.Args[0]
	}
	return App("not", SBool, a)
}

func And(args ...*Term) *Term {
	var out []*Term
	for _, a := range args {
		if a.IsFalse() {
			return tFalse
		}
		if a.IsTrue() {
			continue
		}
		if a.Op == "and" {
			out = append(out, a.Args...)
			continue
		}
		out = append(out, a)
	}
	switch len(out) {
	case 0:
		return tTrue
	case 1:
		return out[0]
	}
	return App("and", SBool, out...)
}

func Or(args ...*Term) *Term {
	var out []*Term
	for _, a := range args {
		if a.IsTrue() {
			return tTrue
		}
		if a.IsFalse() {
			continue
		}
		if a.Op == "or" {
			out = append(out, a.Args...)
			continue
		}
		out = append(out, a)
	}
	switch len(out) {
	case 0:
		return tFalse
	case 1:
		return out[0]
	}
	return App("or", SBool, out...)
}

func Implies(a, b *Term) *Term {
	if a.IsTrue() {
		return b
	}
	if a.IsFalse() || b.IsTrue() {
		return tTrue
	}
	if b.IsFalse() {
		return Not(a)
	}
	return App("=>", SBool, a, b)
}

func Ite(c, a, b *Term) *Term {
	if c.IsTrue() {
		return a
	}
	if c.IsFalse() {
		return b
	}
	if same(a, b) {
		return a
	}
	if a.Sort == SBool {
		if a.IsTrue() && b.IsFalse() {
			return c
		}
		if a.IsFalse() && b.IsTrue() {
			return Not(c)
		}
	}
	return App("ite", a.Sort, c, a, b)
}

func Select(arr, idx *Term) *Term {
	// read-over-write with syntactic index comparison
	for arr.Op == "store" {
		si := arr.Args[1]
		if same(si, idx) {
			return arr.Args[2]
		}
		if d := distinctSyntactically(si, idx); d {
			arr = arr.Args[0]
			continue
		}
		if (arr.Sort == SArrB || strings.HasPrefix(elemSort(arr.Sort), "(Array")) && regionDistinct(si, idx) {
			arr = arr.Args[0]
			continue
		}
		break
	}
	if strings.HasPrefix(arr.Op, "(as const") && len(arr.Args) == 1 {
		return arr.Args[0]
	}
	return App("select", elemSort(arr.Sort), arr, idx)
}

// distinctSyntactically reports whether two Int terms are provably different by
// constant-offset reasoning (x+c1 vs x+c2, or two literals).
func distinctSyntactically(a, b *Term) bool {
	if a.Sort != SInt || b.Sort != SInt {
		return false
	}
	ba, ca := splitConst(a)
	bb, cb := splitConst(b)
	if ba == nil && bb == nil {
		return ca.Cmp(cb) != 0
	}
	if ba != nil && bb != nil && same(ba, bb) {
		return ca.Cmp(cb) != 0
	}
	return false
}

// regionDistinct: two region-valued terms are different when one is a freshly
// allocated region symbol (fresh.*!N) and every generated symbol in the other
// was created before it (regions that existed earlier were allocated earlier),
// or when both are different fresh symbols, or the other is the nil region 0.
func regionDistinct(a, b *Term) bool {
	if fa, na := freshNo(a); fa {
		return olderThan(b, na, a.Name)
	}
	if fb, nb := freshNo(b); fb {
		return olderThan(a, nb, b.Name)
	}
	return false
}

func freshNo(t *Term) (bool, int) {
	if t.Op != "sym" || !strings.HasPrefix(t.Name, "fresh.") {
		return false, 0
	}
	return true, symNo(t.Name)
}

// symNo: the generation counter of a generated symbol ("prefix!N" possibly followed by a leaf
// suffix such as "$r"); -1 for entry symbols (no counter).
func symNo(name string) int {
	i := strings.LastIndex(name, "!")
	if i < 0 {
		return -1
	}
	n, digits := 0, 0
	for _, c := range name[i+1:] {
		if c < '0' || c > '9' {
			break
		}
		n = n*10 + int(c-'0')
		digits++
	}
	if digits == 0 {
		return 1 << 30 // unknown shape: treat as newest (never "older")
	}
	return n
}

func olderThan(t *Term, n int, self string) bool {
	if t.IsInt() {
		return true
	}
	ok := true
	t.walk(func(x *Term) {
		if x.Op == "sym" {
			if x.Name == self {
				ok = false
			}
			if k := symNo(x.Name); k >= n {
				ok = false
			}
		}
		if x.Op == "forall" || x.Op == "exists" {
			ok = false
		}
	})
	return ok
}

func splitConst(a *Term) (*Term, *big.Int) {
	if a.IsInt() {
		return nil, a.Val
	}
	if a.Op == "+" && len(a.Args) == 2 && a.Args[1].IsInt() {
		return a.Args[0], a.Args[1].Val
	}
	return a, big.NewInt(0)
}

func Store(arr, idx, val *Term) *Term {
	if val.Sort != elemSort(arr.Sort) {
		panic(fmt.Sprintf("Store: sort mismatch: array %s elem %s value %s : %s", arr.Sort, elemSort(arr.Sort), val, val.Sort))
	}
	return App("store", arr.Sort, arr, idx, val)
}

func Forall(bound []*Term, body *Term, pats ...*Term) *Term {
	if body.IsTrue() {
		return tTrue
	}
	bound, body, pats = canonBound(bound, body, pats)
	return &Term{Op: "forall", Sort: SBool, Bound: bound, Args: []*Term{body}, Pats: pats}
}

func Exists(bound []*Term, body *Term) *Term {
	if body.IsFalse() {
		return tFalse
	}
	bound, body, _ = canonBound(bound, body, nil)
	return &Term{Op: "exists", Sort: SBool, Bound: bound, Args: []*Term{body}}
}

// canonBound gives the bound variables names that depend only on the quantified formula itself, so that two
// evaluations of the same contract clause in the same state are the same term (and "P ==> Q" with P already
// assumed reduces to Q without asking a solver to re-prove a quantified P).
func canonBound(bound []*Term, body *Term, pats []*Term) ([]*Term, *Term, []*Term) {
	canon := true
	for _, b := range bound {
		if !strings.Contains(b.Name, "!q") {
			canon = false
		}
	}
	if canon {
		return bound, body, pats
	}
	s := body.String()
	for _, p := range pats {
		s += " " + p.String()
	}
	for i, b := range bound {
		s = strings.ReplaceAll(s, "|"+b.Name+"|", fmt.Sprintf("|#%d|", i))
	}
	h := sha256.Sum256([]byte(s))
	m := map[string]*Term{}
	nb := make([]*Term, len(bound))
	for i, b := range bound {
		base := b.Name
		if j := strings.Index(base, "!"); j >= 0 {
			base = base[:j]
		}
		nb[i] = Sym(fmt.Sprintf("%s!q%x_%d", base, h[:5], i), b.Sort)
		m[b.Name] = nb[i]
	}
	body = subst(body, m)
	np := make([]*Term, len(pats))
	for i, p := range pats {
		np[i] = subst(p, m)
	}
	return nb, body, np
}

// ---- traversal ----

func (t *Term) walk(f func(*Term)) {
	f(t)
	for _, a := range t.Args {
		a.walk(f)
	}
	for _, p := range t.Pats {
		p.walk(f)
	}
}

// freeSyms collects free symbols (name -> sort) of t.
func freeSyms(t *Term, out map[string]string) {
	var rec func(t *Term, bound map[string]bool)
	rec = func(t *Term, bound map[string]bool) {
		switch t.Op {
		case "sym":
			if !bound[t.Name] {
				out[t.Name] = t.Sort
			}
		case "forall", "exists":
			nb := map[string]bool{}
			for k := range bound {
				nb[k] = true
			}
			for _, v := range t.Bound {
				nb[v.Name] = true
			}
			rec(t.Args[0], nb)
			for _, p := range t.Pats {
				rec(p, nb)
			}
		default:
			for _, a := range t.Args {
				rec(a, bound)
			}
		}
	}
	rec(t, map[string]bool{})
}

// subst replaces symbols by terms.
func subst(t *Term, m map[string]*Term) *Term {
	switch t.Op {
	case "sym":
		if r, ok := m[t.Name]; ok {
			return r
		}
		return t
	case "int", "true", "false", "bv":
		return t
	case "forall", "exists":
		m2 := m
		for _, v := range t.Bound {
			if _, ok := m[v.Name]; ok {
				m2 = map[string]*Term{}
				for k, x := range m {
					m2[k] = x
				}
				for _, v := range t.Bound {
					delete(m2, v.Name)
				}
				break
			}
		}
		nt := &Term{Op: t.Op, Sort: t.Sort, Bound: t.Bound, Args: []*Term{subst(t.Args[0], m2)}}
		for _, p := range t.Pats {
			nt.Pats = append(nt.Pats, subst(p, m2))
		}
		return nt
	}
	changed := false
	args := make([]*Term, len(t.Args))
	for i, a := range t.Args {
		args[i] = subst(a, m)
		if args[i] != a {
			changed = true
		}
	}
	if !changed {
		return t
	}
	return rebuild(t, args)
}

// rebuild re-applies smart constructors after substitution.
func rebuild(t *Term, args []*Term) *Term {
	switch t.Op {
	case "+":
		r := args[0]
		for _, a := range args[1:] {
			r = Add(r, a)
		}
		return r
	case "-":
		if len(args) == 1 {
			return Neg(args[0])
		}
		r := args[0]
		for _, a := range args[1:] {
			r = Sub(r, a)
		}
		return r
	case "*":
		if len(args) == 2 {
			return Mul(args[0], args[1])
		}
	case "div":
		return Div(args[0], args[1])
	case "mod":
		return Mod(args[0], args[1])
	case "<":
		return Lt(args[0], args[1])
	case "<=":
		return Le(args[0], args[1])
	case ">":
		return Gt(args[0], args[1])
	case ">=":
		return Ge(args[0], args[1])
	case "=":
		if len(args) == 2 {
			return Eq(args[0], args[1])
		}
	case "not":
		return Not(args[0])
	case "and":
		return And(args...)
	case "or":
		return Or(args...)
	case "=>":
		return Implies(args[0], args[1])
	case "ite":
		return Ite(args[0], args[1], args[2])
	case "select":
		return Select(args[0], args[1])
	}
	return &Term{Op: t.Op, Sort: t.Sort, Args: args, Name: t.Name, Val: t.Val}
}

func sortedKeys(m map[string]string) []string {
	ks := make([]string, 0, len(m))
	for k := range m {
		ks = append(ks, k)
	}
	sort.Strings(ks)
	return ks
}

// ---- interval inference (used to drop redundant wrap-arounds) ----

type interval struct{ lo, hi *big.Int } // nil = unbounded

var symRanges = map[string]interval{} // symbol name -> known type range (global, names are unique)

func rangeOf(t *Term) interval {
	switch t.Op {
	case "int":
		return interval{t.Val, t.Val}
	case "sym":
		if r, ok := symRanges[t.Name]; ok {
			return r
		}
	case "+":
		r := rangeOf(t.Args[0])
		for _, a := range t.Args[1:] {
			s := rangeOf(a)
			r = interval{addB(r.lo, s.lo), addB(r.hi, s.hi)}
		}
		return r
	case "-":
		if len(t.Args) == 2 {
			a, b := rangeOf(t.Args[0]), rangeOf(t.Args[1])
			return interval{subB(a.lo, b.hi), subB(a.hi, b.lo)}
		}
		if len(t.Args) == 1 {
			a := rangeOf(t.Args[0])
			return interval{negB(a.hi), negB(a.lo)}
		}
	case "*":
		if len(t.Args) == 2 {
			a, b := rangeOf(t.Args[0]), rangeOf(t.Args[1])
			if a.lo != nil && a.hi != nil && b.lo != nil && b.hi != nil && a.lo.Sign() >= 0 && b.lo.Sign() >= 0 {
				return interval{new(big.Int).Mul(a.lo, b.lo), new(big.Int).Mul(a.hi, b.hi)}
			}
		}
	case "mod":
		if t.Args[1].IsInt() && t.Args[1].Val.Sign() > 0 {
			return interval{big.NewInt(0), new(big.Int).Sub(t.Args[1].Val, big.NewInt(1))}
		}
	case "div":
		a := rangeOf(t.Args[0])
		if t.Args[1].IsInt() && t.Args[1].Val.Sign() > 0 && a.lo != nil && a.hi != nil && a.lo.Sign() >= 0 {
			return interval{new(big.Int).Div(a.lo, t.Args[1].Val), new(big.Int).Div(a.hi, t.Args[1].Val)}
		}
	case "ite":
		a, b := rangeOf(t.Args[1]), rangeOf(t.Args[2])
		return interval{minB(a.lo, b.lo), maxB(a.hi, b.hi)}
	case "select":
		if r, ok := selectRange(t); ok {
			return r
		}
	}
	return interval{}
}

// selectRange: reads from families whose element type has a known range.
var familyRanges = map[string]interval{} // family base symbol prefix -> range

func selectRange(t *Term) (interval, bool) {
	// find the root symbol of the array expression
	a := t.Args[0]
	for {
		switch a.Op {
		case "store", "select":
			a = a.Args[0]
			continue
		}
		break
	}
	if a.Op == "sym" {
		if i := strings.LastIndex(a.Name, "@"); i > 0 {
			if r, ok := familyRanges[a.Name[:i]]; ok {
				return r, true
			}
		}
		if r, ok := familyRanges[a.Name]; ok {
			return r, true
		}
	}
	return interval{}, false
}

func addB(a, b *big.Int) *big.Int {
	if a == nil || b == nil {
		return nil
	}
	return new(big.Int).Add(a, b)
}
func subB(a, b *big.Int) *big.Int {
	if a == nil || b == nil {
		return nil
	}
	return new(big.Int).Sub(a, b)
}
func negB(a *big.Int) *big.Int {
	if a == nil {
		return nil
	}
	return new(big.Int).Neg(a)
}
func minB(a, b *big.Int) *big.Int {
	if a == nil || b == nil {
		return nil
	}
	if a.Cmp(b) < 0 {
		return a
	}
	return b
}
func maxB(a, b *big.Int) *big.Int {
	if a == nil || b == nil {
		return nil
	}
	if a.Cmp(b) > 0 {
		return a
	}
	return b
}

func (r interval) within(lo, hi *big.Int) bool {
	return r.lo != nil && r.hi != nil && r.lo.Cmp(lo) >= 0 && r.hi.Cmp(hi) <= 0
}

// WrapU returns t mod 2^bits unless t is known to be in range already.
func WrapU(t *Term, bits uint) *Term {
	m := new(big.Int).Lsh(big.NewInt(1), bits)
	if rangeOf(t).within(big.NewInt(0), new(big.Int).Sub(m, big.NewInt(1))) {
		return t
	}
	return Mod(t, BigInt(m))
}

// WrapS wraps into the signed range of the given width.
func WrapS(t *Term, bits uint) *Term {
	half := new(big.Int).Lsh(big.NewInt(1), bits-1)
	if rangeOf(t).within(new(big.Int).Neg(half), new(big.Int).Sub(half, big.NewInt(1))) {
		return t
	}
	m := new(big.Int).Lsh(big.NewInt(1), bits)
	return Sub(Mod(Add(t, BigInt(half)), BigInt(m)), BigInt(half))
}

// summands flattens nested binary additions: t = sum(terms) + c.
func summands(t *Term) ([]*Term, *big.Int) {
	c := big.NewInt(0)
	var out []*Term
	var rec func(t *Term)
	rec = func(t *Term) {
		switch {
		case t.IsInt():
			c = new(big.Int).Add(c, t.Val)
		case t.Op == "+":
			for _, a := range t.Args {
				rec(a)
			}
		default:
			out = append(out, t)
		}
	}
	rec(t)
	return out, c
}

func containsSym(t *Term, name string) bool {
	found := false
	t.walk(func(x *Term) {
		if x.Op == "sym" && x.Name == name {
			found = true
		}
	})
	return found
}

// indexShift looks for an array read select(A, X + v) in t where v is the bound
// variable and X does not contain it; returns X (the first such), or nil.
// indexShifts looks for array reads select(A, X + v) in t where v is the bound
// variable and X does not contain it; returns the distinct X (Int(0) for a bare index).
func indexShifts(t *Term, v string) []*Term {
	var res []*Term
	seen := map[string]bool{}
	var rec func(t *Term)
	rec = func(t *Term) {
		if t.Op == "select" && t.Args[1].Sort == SInt && containsSym(t.Args[1], v) {
			terms, cst := summands(t.Args[1])
			var rest []*Term
			n := 0
			ok := true
			for _, s := range terms {
				if s.Op == "sym" && s.Name == v {
					n++
				} else if containsSym(s, v) {
					ok = false
				} else {
					rest = append(rest, s)
				}
			}
			if ok && n == 1 {
				x := BigInt(cst)
				for _, r := range rest {
					x = Add(x, r)
				}
				if !seen[x.String()] && len(res) < 3 {
					seen[x.String()] = true
					res = append(res, x)
				}
			}
		}
		for _, a := range t.Args {
			rec(a)
		}
	}
	rec(t)
	return res
}
