package main

import (
	"fmt"
	"go/token"
	"go/types"
	"math/big"
)

func bvSort(bits int) string { return fmt.Sprintf("(_ BitVec %d)", bits) }

func bvConst(v *big.Int, bits int) *Term {
	m := new(big.Int).Lsh(big.NewInt(1), uint(bits))
	vv := new(big.Int).Mod(v, m)
	return &Term{Op: "bv", Val: vv, Sort: bvSort(bits)}
}

func bvResize(t *Term, from, to int, unsigned bool) *Term {
	switch {
	case to == from:
		return t
	case to < from:
		return App(fmt.Sprintf("(_ extract %d 0)", to-1), bvSort(to), t)
	case unsigned:
		return App(fmt.Sprintf("(_ zero_extend %d)", to-from), bvSort(to), t)
	}
	return App(fmt.Sprintf("(_ sign_extend %d)", to-from), bvSort(to), t)
}

func (x *Exec) bvBinop(op token.Token, a, b *Term, xt, yt types.Type) *Term {
	bits := bitsOf(xt)
	s := bvSort(bits)
	uns := isUnsigned(xt)
	// shift counts may have a different width
	if op == token.SHL || op == token.SHR {
		yb := bitsOf(yt)
		if b.Op == "bv" {
			b = bvConst(b.Val, bits)
		} else if yb != bits {
			b = bvResize(b, yb, bits, true)
		}
	}
	switch op {
	case token.ADD:
		return App("bvadd", s, a, b)
	case token.SUB:
		return App("bvsub", s, a, b)
	case token.MUL:
		return App("bvmul", s, a, b)
	case token.AND:
		return App("bvand", s, a, b)
	case token.OR:
		return App("bvor", s, a, b)
	case token.XOR:
		return App("bvxor", s, a, b)
	case token.AND_NOT:
		return App("bvand", s, a, App("bvnot", s, b))
	case token.SHL:
		return App("bvshl", s, a, b)
	case token.SHR:
		if uns {
			return App("bvlshr", s, a, b)
		}
		return App("bvashr", s, a, b)
	case token.QUO:
		if uns {
			return App("bvudiv", s, a, b)
		}
		return App("bvsdiv", s, a, b)
	case token.REM:
		if uns {
			return App("bvurem", s, a, b)
		}
		return App("bvsrem", s, a, b)
	case token.LSS:
		if uns {
			return App("bvult", SBool, a, b)
		}
		return App("bvslt", SBool, a, b)
	case token.LEQ:
		if uns {
			return App("bvule", SBool, a, b)
		}
		return App("bvsle", SBool, a, b)
	case token.GTR:
		if uns {
			return App("bvugt", SBool, a, b)
		}
		return App("bvsgt", SBool, a, b)
	case token.GEQ:
		if uns {
			return App("bvuge", SBool, a, b)
		}
		return App("bvsge", SBool, a, b)
	}
	panic(unsupported("bv operator " + op.String()))
}
