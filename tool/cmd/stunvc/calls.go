package main

import (
	"fmt"
	"go/ast"
	"go/token"
	"go/types"
	"strings"

	"golang.org/x/tools/go/ssa"
)

// ---- globals ----

type globalRec struct {
	v    Value
	hyps []*Term
}

var globalCache = map[string]*globalRec{}

func (p *Program) globalValue(st *State, g *ssa.Global) Value {
	key := p.tags + "|" + g.String()
	if rec, ok := globalCache[key]; ok {
		for _, h := range rec.hyps {
			st.assume(h)
		}
		return rec.v
	}
	t := g.Type().(*types.Pointer).Elem()
	rec := &globalRec{}
	if types.Identical(t, types.Universe.Lookup("error").Type()) {
		// package-level error variables: created once by errors.New / fmt.Errorf, never reassigned (assumption)
		id := int64(100 + len(p.errIDs))
		if old, ok := p.errIDs[g.String()]; ok {
			id = old
		} else {
			p.errIDs[g.String()] = id
		}
		rec.v = If{Tag: Int(1), Pl: Int(id)}
	} else {
		tmp := &State{hypSet: map[string]bool{}, heap: st.heap, ghost: map[string]*Term{}}
		name := "g." + g.Pkg.Pkg.Name() + "." + g.Name()
		rec.v = tmp.freshValue(name, t)
		if pv, ok := rec.v.(Ptr); ok {
			pv.R = Sym(name, SInt)
			rec.v = pv
			tmp.assume(Gt(pv.R, Int(0)))
		}
		// allocation facts refer to the heap's alloc map at the time of access; keep only range facts
		for _, h := range tmp.hyps {
			if !strings.Contains(h.String(), "alloc@") {
				rec.hyps = append(rec.hyps, h)
			}
		}
	}
	globalCache[key] = rec
	for _, h := range rec.hyps {
		st.assume(h)
	}
	return rec.v
}

func (p *Program) typeIDByName(s string) int64 {
	for k, id := range p.typeIDs {
		if k == s || strings.HasSuffix(k, "."+s) || strings.HasSuffix(k, "/"+s) {
			return id
		}
	}
	// not seen yet: allocate by name so that later MakeInterface of that type agrees
	id := int64(10 + len(p.typeIDs))
	p.typeIDs[s] = id
	return id
}

// ---- locations (assigns clauses) ----

type loc struct {
	rng    bool // elements [lo,hi) (absolute indices) of region r
	lo, hi *Term
	all    bool
	mem    bool       // whole region of a slice's backing store
	root   types.Type // region element type
	r, i   *Term
	prefix string     // leaf path prefix inside root ("" = whole element)
	typ    types.Type // type of the addressed sub-object
	ghost  string
	gkind  string // "", gmap, gmapa, gmapk
	gkey   *Term  // entry of a ghost map (nil: the whole map)
	mapv   *MapV
	src    string
}

func (c *evalCtx) evalLoc(e ast.Expr) (out []loc) {
	src := exprString(e)
	if call, ok := e.(*ast.CallExpr); ok {
		if id, ok := call.Fun.(*ast.Ident); ok {
			switch id.Name {
			case "mem":
				v := c.rv(c.eval(call.Args[0]))
				switch sl := v.(type) {
				case Sl:
					if sl.Loc != nil {
						prefix, t, _ := pathString(sl.Loc.Root, sl.Loc.Path)
						return []loc{{root: sl.Loc.Root, r: sl.Loc.R, i: sl.Loc.I, prefix: prefix, typ: t, src: src}}
					}
					return []loc{{mem: true, root: sl.Elem, r: sl.R, src: src}}
				case MapV:
					return []loc{{mapv: &sl, src: src}}
				}
				c.errf("mem() of %T", v)
			case "ghost":
				return []loc{{ghost: call.Args[0].(*ast.Ident).Name, src: src}}
			case "gmap", "gmapa", "gmapk":
				return []loc{{ghost: call.Args[0].(*ast.Ident).Name, gkind: id.Name, src: src}}
			case "everything":
				return []loc{{all: true, src: src}}
			case "old":
				return c.inHeap(c.old, c.oldGhost).evalLoc(call.Args[0])
			}
		}
	}
	if id, ok := e.(*ast.Ident); ok && id.Name == "everything" {
		return []loc{{all: true, src: src}}
	}
	if ie, ok := e.(*ast.IndexExpr); ok {
		if call, ok := ie.X.(*ast.CallExpr); ok {
			if id, ok := call.Fun.(*ast.Ident); ok && (id.Name == "gmap" || id.Name == "gmapa" || id.Name == "gmapk") {
				var k *Term
				if id.Name == "gmapk" {
					k = keyTerm(c.rv(c.eval(ie.Index)))
				} else {
					k = c.term(ie.Index)
				}
				return []loc{{ghost: call.Args[0].(*ast.Ident).Name, gkind: id.Name, gkey: k, src: src}}
			}
		}
	}
	if se, ok := e.(*ast.SliceExpr); ok {
		// s[a:b]: the elements a..b-1 of s (b may exceed len(s), up to cap)
		v := c.rv(c.eval(se.X))
		sl, ok := v.(Sl)
		if !ok || sl.Loc != nil {
			c.errf("range location on %T", v)
		}
		lo, hi := Int(0), sl.L
		if se.Low != nil {
			lo = c.term(se.Low)
		}
		if se.High != nil {
			hi = c.term(se.High)
		}
		return []loc{{rng: true, root: sl.Elem, r: sl.R, lo: Add(sl.O, lo), hi: Add(sl.O, hi), src: src}}
	}
	v := c.eval(e)
	switch vv := v.(type) {
	case LV:
		if _, isMap := vv.P.Elem.Underlying().(*types.Map); isMap {
			// the map variable itself
		}
		prefix, t, aidx := pathString(vv.P.Root, vv.P.Path)
		if aidx != nil {
			t = arrayTypeAt(vv.P.Root, vv.P.Path)
		}
		if vv.P.ArrRegion {
			return []loc{{mem: true, root: vv.P.Root, r: vv.P.R, src: src}}
		}
		return []loc{{root: vv.P.Root, r: vv.P.R, i: vv.P.I, prefix: prefix, typ: t, src: src}}
	case Ptr:
		// a pointer value: the whole pointee
		prefix, t, _ := pathString(vv.Root, vv.Path)
		return []loc{{root: vv.Root, r: vv.R, i: vv.I, prefix: prefix, typ: t, src: src}}
	}
	c.errf("not a location: %s (%T)", src, v)
	return nil
}

func (x *Exec) evalLocs(st *State, clauses []*Clause, c *evalCtx) (out []loc) {
	defer func() {
		if r := recover(); r != nil {
			if ee, ok := r.(evalErr); ok {
				x.fail("contract error: %s", ee.msg)
				return
			}
			panic(r)
		}
	}()
	for _, cl := range clauses {
		c.where = cl.Line
		for _, e := range cl.Locs {
			out = append(out, c.evalLoc(e)...)
		}
	}
	return out
}

// covers: condition under which a write to (root, r, i, prefix) lies inside l.
func (l loc) covers(root types.Type, r, i *Term, prefix string) *Term {
	if l.all {
		return tTrue
	}
	if l.ghost != "" || l.mapv != nil {
		return tFalse
	}
	if canon(l.root) != canon(root) {
		return tFalse
	}
	if l.mem {
		return Eq(l.r, r)
	}
	if l.rng {
		return And(Eq(l.r, r), Le(l.lo, i), Lt(i, l.hi))
	}
	if !(prefix == l.prefix || strings.HasPrefix(prefix, l.prefix+".") || strings.HasPrefix(prefix, l.prefix+"$") || l.prefix == "") {
		return tFalse
	}
	return And(Eq(l.r, r), Eq(l.i, i))
}

// havocLoc replaces the contents of l in st.heap by fresh values.
func (x *Exec) havocLoc(st *State, l loc) {
	switch {
	case l.all:
		for name, t := range st.heap.fam {
			st.heap.fam[name] = Sym(fresh(name), t.Sort)
		}
		x.havocAlloc(st)
	case l.ghost != "":
		srt := ghostSort(l.gkind)
		if l.gkey != nil {
			cur := ghostGet(st.ghost, l.ghost, srt)
			st.ghost[l.ghost] = Store(cur, l.gkey, Sym(fresh("ghost."+l.ghost), elemSort(srt)))
		} else {
			st.ghost[l.ghost] = Sym(fresh("ghost."+l.ghost), srt)
		}
	case l.mapv != nil:
		x.havocMap(st, *l.mapv)
	case l.mem:
		walkType(l.root, "", func(lf leaf, _ types.Type, _ string) {
			name := familyName(l.root, lf.path)
			fam := st.heap.family(name, lf.sort)
			st.heap.fam[name] = Store(fam, l.r, Sym(fresh("hv."+name), arrSort(SInt, lf.sort)))
		})
	case l.rng:
		walkType(l.root, "", func(lf leaf, _ types.Type, _ string) {
			name := familyName(l.root, lf.path)
			fam := st.heap.family(name, lf.sort)
			oldA := Select(fam, l.r)
			na := Sym(fresh("hv."+name), arrSort(SInt, lf.sort))
			p := Sym(fresh("p"), SInt)
			st.assume(Forall([]*Term{p}, Implies(Not(And(Le(l.lo, p), Lt(p, l.hi))), Eq(Select(na, p), Select(oldA, p))), Select(na, p)))
			st.heap.fam[name] = Store(fam, l.r, na)
		})
	default:
		walkType(l.typ, "", func(lf leaf, _ types.Type, _ string) {
			name := familyName(l.root, joinPath(l.prefix, lf.path))
			fam := st.heap.family(name, lf.sort)
			st.heap.fam[name] = Store(fam, l.r, Store(Select(fam, l.r), l.i, Sym(fresh("hv."+name), lf.sort)))
		})
	}
}

func (x *Exec) havocAlloc(st *State) {
	old := st.heap.alloc
	na := Sym(fresh("alloc"), SArrB)
	r := Sym(fresh("r"), SInt)
	st.assume(Forall([]*Term{r}, Implies(Select(old, r), Select(na, r)), Select(old, r)))
	if st.old != nil && st.old.alloc != old {
		// also relative to the entry allocation map (so that "fresh" w.r.t. a later state implies fresh w.r.t. entry)
		r0 := Sym(fresh("r"), SInt)
		st.assume(Forall([]*Term{r0}, Implies(Select(st.old.alloc, r0), Select(na, r0)), Select(st.old.alloc, r0)))
	}
	st.assume(Select(na, Int(0)))
	st.heap.alloc = na
}

// frameDuty: a write to (root,r,i,path) must be allowed by the function's assigns
// clause (evaluated at entry) and by the assigns clauses of all enclosing loops.
func (x *Exec) frameDuty(st *State, root types.Type, r, i *Term, path []pathElem, pos token.Pos, what string) {
	prefix, _, _ := pathString(root, path)
	fr := st.top
	// loop-level frames (for havoc precision)
	for fr2 := fr; fr2 != nil; fr2 = fr2.parent {
		for h, snap := range fr2.loops {
			if snap == nil || !fr2.info.loopBlks[h][fr2.block.Index] || snap.locs == nil {
				continue
			}
			if isFreshSym(r) && symNo(r.Name) > snap.gensym {
				continue // allocated inside the loop
			}
			goal := Not(Select(snap.heap.alloc, r))
			for _, l := range snap.locs {
				goal = Or(goal, l.covers(root, r, i, prefix))
			}
			x.oblige(st, "frame-loop", x.pos(pos), fmt.Sprintf("%s stays inside the assigns clause of loop %d", what, fr2.info.headers[h]), x.allProps(), goal)
		}
	}
	if x.fc == nil || !x.fc.HasAssigns || isFreshSym(r) {
		return
	}
	goal := Not(Select(st.old.alloc, r))
	for _, l := range x.entryLocs(st) {
		goal = Or(goal, l.covers(root, r, i, prefix))
	}
	var props []string
	for _, a := range x.fc.Assigns {
		props = append(props, a.Props...)
	}
	if len(props) == 0 {
		props = x.allProps()
	}
	x.oblige(st, "frame", x.pos(pos), what+" stays inside the function's assigns clause", props, goal)
}

func (x *Exec) entryLocs(st *State) []loc {
	if x.locsDone {
		return x.locs
	}
	x.locsDone = true
	es := x.entry.clone()
	c := x.ctxFor(es, es.top, es.old, nil)
	c.heap = es.old
	c.facts = false
	x.locs = x.evalLocs(es, x.fc.Assigns, c)
	return x.locs
}

// ---- calls ----

func (x *Exec) call(st *State, fr *Frame, instr ssa.Instruction, cc *ssa.CallCommon, pos token.Pos) bool {
	var args []Value
	for _, a := range cc.Args {
		args = append(args, x.val(st, fr, a))
	}
	bind := func(v Value) {
		if iv, ok := instr.(ssa.Value); ok && v != nil {
			fr.env[iv] = v
		}
	}
	if cc.IsInvoke() {
		recv := x.val(st, fr, cc.Value).(If)
		x.safe(st, "nil", pos, "method call on nil interface", Not(Eq(recv.Tag, Int(0))))
		if recv.Dyn != nil {
			if m := x.p.prog.LookupMethod(recv.Dyn, cc.Method.Pkg(), cc.Method.Name()); m != nil {
				return x.callStatic(st, fr, instr, m, append([]Value{recv.DynVal}, args...), pos)
			}
		}
		key := ifaceKey(cc.Value.Type(), cc.Method.Name())
		// caller-specific interface contract "<caller>-><iface>.<method>": what this caller may assume of (and owes to)
		// the implementation in its own context; it may mention the caller's parameters and named locals
		fc := x.p.lookupDyn(fr, x.key+"->"+shortIface(key))
		if fc != nil {
			key = x.key + "->" + shortIface(key)
		} else {
			fc = x.p.lookupDyn(fr, key)
		}
		if fc == nil {
			panic(unsupported("no interface contract for " + key))
		}
		x.p.trusted[key] = true
		x.noLockHeld(st, pos, "call of "+key)
		names := fc.Params
		sig := cc.Method.Type().(*types.Signature)
		bind(x.applyContract(st, fr, fc, key, names, append([]Value{recv}, args...), sig.Results(), pos))
		return false
	}
	if b, ok := cc.Value.(*ssa.Builtin); ok {
		bind(x.builtin(st, fr, b.Name(), cc, args, instr, pos))
		return false
	}
	if fn := cc.StaticCallee(); fn != nil {
		if mc, ok := cc.Value.(*ssa.MakeClosure); ok {
			cv := x.val(st, fr, mc).(Fn)
			return x.inline(st, fr, instr, fn, args, cv.Bind, pos)
		}
		return x.callStatic(st, fr, instr, fn, args, pos)
	}
	fv := x.val(st, fr, cc.Value)
	if f, ok := fv.(Fn); ok && f.Fn != nil {
		if f.Fn.Blocks != nil && (f.Fn.Parent() != nil) {
			return x.inline(st, fr, instr, f.Fn, args, f.Bind, pos)
		}
		return x.callStatic(st, fr, instr, f.Fn, args, pos)
	}
	// dynamic function value
	x.safe(st, "nil", pos, "call of nil function value", Not(Eq(scT(fv), Int(0))))
	label := valueLabel(cc.Value)
	_, ckey := funcKey(fr.fn)
	var fc *FuncContract
	var key string
	for _, k := range []string{ckey + "." + label, typeLabel(cc.Value.Type()), "func." + label} {
		if fc = x.p.lookupDyn(fr, k); fc != nil {
			key = k
			break
		}
	}
	if fc == nil {
		panic(unsupported(fmt.Sprintf("no contract for dynamic call of %s (tried %s.%s, %s)", label, ckey, label, typeLabel(cc.Value.Type()))))
	}
	x.p.trusted[key] = true
	x.noLockHeld(st, pos, "call of "+key)
	sig := cc.Value.Type().Underlying().(*types.Signature)
	bind(x.applyContract(st, fr, fc, key, fc.Params, append([]Value{fv}, args...), sig.Results(), pos))
	return false
}

func valueLabel(v ssa.Value) string {
	switch vv := v.(type) {
	case *ssa.Parameter:
		return vv.Name()
	case *ssa.UnOp:
		if fa, ok := vv.X.(*ssa.FieldAddr); ok {
			st := fa.X.Type().Underlying().(*types.Pointer).Elem().Underlying().(*types.Struct)
			return st.Field(fa.Field).Name()
		}
		if fv, ok := vv.X.(*ssa.FreeVar); ok {
			return fv.Name()
		}
	case *ssa.Field:
		st := vv.X.Type().Underlying().(*types.Struct)
		return st.Field(vv.Field).Name()
	case *ssa.Phi:
		return vv.Comment
	}
	return v.Name()
}

func typeLabel(t types.Type) string {
	if n, ok := t.(*types.Named); ok {
		return n.Obj().Name()
	}
	return t.String()
}

func ifaceKey(t types.Type, method string) string {
	if n, ok := t.(*types.Named); ok {
		if n.Obj().Pkg() != nil {
			return n.Obj().Pkg().Path() + "." + n.Obj().Name() + "." + method
		}
		return n.Obj().Name() + "." + method // error.Error
	}
	return "iface." + method
}

// lookupDyn finds a contract for an interface method / dynamic call by key.
func (p *Program) lookupDyn(fr *Frame, key string) *FuncContract {
	for pkg, cs := range p.cs {
		if fc, ok := cs.Funcs[key]; ok {
			return fc
		}
		if strings.HasPrefix(key, pkg+".") {
			if fc, ok := cs.Funcs[strings.TrimPrefix(key, pkg+".")]; ok {
				return fc
			}
		}
	}
	if fc, ok := p.spec.Funcs[key]; ok {
		return fc
	}
	return nil
}

func (x *Exec) callStatic(st *State, fr *Frame, instr ssa.Instruction, fn *ssa.Function, args []Value, pos token.Pos) bool {
	fc := x.p.contractFor(fn)
	pkg, key := funcKey(fn)
	callerSpecific := false
	// caller-specific contract of an external: "<caller>-><extern>" (e.g. what a particular sync.Pool returns)
	if !x.p.verified[pkg] {
		_, ckey := funcKey(fr.fn)
		if o := x.p.lookupDyn(fr, ckey+"->"+externKey(pkg, key)); o != nil {
			fc = o
			x.p.trusted[ckey+"->"+externKey(pkg, key)] = true
			callerSpecific = true
		}
	}
	inRepo := x.p.verified[pkg]
	bind := func(v Value) {
		if iv, ok := instr.(ssa.Value); ok && v != nil {
			fr.env[iv] = v
		}
	}
	if inRepo && fn.Blocks != nil && x.p.callCycle(x.fn, fn) {
		x.recursionDuty(st, fr, fn, fc, args, pos)
	}
	if fn.Blocks != nil && inRepo && (fn.Parent() != nil || (fc != nil && fc.Transparent)) {
		if fc != nil && fc.Transparent {
			x.p.transp[key] = true
		}
		return x.inline(st, fr, instr, fn, args, nil, pos)
	}
	if fc == nil {
		if inRepo {
			// an in-repo helper without a contract is unfolded at the call site (its loops still need
			// invariants; recursion is caught by the termination duty above)
			if fn.Blocks != nil && !x.p.callCycle(x.fn, fn) && !x.p.callCycle(fn, fn) { // callee neither reaches the caller nor itself
				x.p.transp[key+" (no contract: unfolded)"] = true
				return x.inline(st, fr, instr, fn, args, nil, pos)
			}
			panic(unsupported("call of " + key + " which has no contract (and is not transparent)"))
		}
		if valueOnlySig(fn.Signature) {
			// an external function over scalars and strings only cannot touch the caller's memory:
			// its results are left unconstrained (assumed total, panic-free and without effect on
			// package state). Paths through it are marked: a failure there must replay to count.
			ek := externKey(pkg, key)
			x.p.trusted[ek+" (auto-abstracted: results unconstrained)"] = true
			st.abstracted = append(st.abstracted, ek)
			fc = &FuncContract{Pure: true, Trusted: true}
		} else {
			panic(unsupported("call of external " + externKey(pkg, key) + " which has no contract in spec/externals.spec"))
		}
	}
	if fc.Trusted {
		x.p.trusted[externKey(pkg, key)] = true
	}
	if pkg == "sync" {
		x.noteLock(st, key, args, pos)
	}
	names := fc.Params
	if names == nil {
		for _, prm := range fn.Params {
			names = append(names, prm.Name())
		}
		if fn.Params == nil {
			sig := fn.Signature
			if sig.Recv() != nil {
				names = append(names, sig.Recv().Name())
			}
			for i := 0; i < sig.Params().Len(); i++ {
				names = append(names, sig.Params().At(i).Name())
			}
		}
	}
	akey := key
	if callerSpecific {
		akey = x.key + "->" + key // lets the contract mention the caller's parameters and named locals
	}
	bind(x.applyContract(st, fr, fc, akey, names, args, fn.Signature.Results(), pos))
	return false
}

func (x *Exec) inline(st *State, fr *Frame, instr ssa.Instruction, fn *ssa.Function, args []Value, bindings []Value, pos token.Pos) bool {
	if st.depth > 8 {
		panic(unsupported("inlining depth exceeded at " + fn.Name()))
	}
	nf := &Frame{fn: fn, env: map[ssa.Value]Value{}, names: map[string]Value{}, loops: map[int]*loopSnap{}, parent: fr, call: instr, info: x.p.info(fn)}
	for i, prm := range fn.Params {
		nf.env[prm] = args[i]
		nf.names[prm.Name()] = args[i]
	}
	for i, fv := range fn.FreeVars {
		nf.env[fv] = bindings[i]
	}
	nf.block = fn.Blocks[0]
	st.top = nf
	st.depth++
	return false
}

func (x *Exec) runDefers(st *State, fr *Frame, i *ssa.RunDefers) bool {
	if len(fr.defers) == 0 {
		return false
	}
	d := fr.defers[len(fr.defers)-1]
	fr.defers = fr.defers[:len(fr.defers)-1]
	if len(fr.defers) > 0 {
		fr.idx-- // come back for the next one
	}
	cc := d.call
	if cc.IsInvoke() {
		panic(unsupported("deferred interface call"))
	}
	if b, ok := cc.Value.(*ssa.Builtin); ok {
		x.builtinVals(st, fr, b.Name(), d.args, nil, i.Pos())
		return false
	}
	if f, ok := d.fn.(Fn); ok && f.Fn != nil {
		if f.Fn.Parent() != nil && f.Fn.Blocks != nil {
			return x.inline(st, fr, nil, f.Fn, d.args, f.Bind, i.Pos())
		}
		return x.callStatic(st, fr, nil, f.Fn, d.args, i.Pos())
	}
	panic(unsupported("deferred dynamic call"))
}

// applyContract: prove requires, havoc assigns, assume ensures; returns the result value.
func (x *Exec) applyContract(st *State, fr *Frame, fc *FuncContract, key string, names []string, args []Value, results *types.Tuple, pos token.Pos) Value {
	vars := map[string]Value{}
	for i, a := range args {
		if i < len(names) && names[i] != "" && names[i] != "_" {
			vars[names[i]] = a
		}
		vars[fmt.Sprintf("arg%d", i)] = a
	}
	if strings.Contains(key, "->") || strings.HasPrefix(key, x.key+".") { // caller-specific contract (also of a function-valued field / parameter)
		for n, v := range x.params {
			if _, taken := vars[n]; !taken {
				vars[n] = v
			}
		}
		for f := fr; f != nil; f = f.parent {
			for n, v := range f.names {
				if _, taken := vars[n]; !taken {
					vars[n] = v
				}
			}
		}
	}
	site := x.pos(pos)
	pre := st.heap.clone()
	preGhost := map[string]*Term{}
	for k, v := range st.ghost {
		preGhost[k] = v
	}
	c := &evalCtx{x: x, st: st, heap: st.heap, old: nil, ghost: st.ghost, vars: vars, facts: true, pkg: x.contractPkg(fc)}
	for _, cl := range fc.Requires {
		t := x.evalBool(st, cl, c)
		x.oblige(st, "requires", site, fmt.Sprintf("precondition of %s: %s", key, cl.Src), x.allProps(), t)
		st.assume(t)
	}
	// frame: the callee's assigned locations must be allowed for the caller
	cPre := &evalCtx{x: x, st: st, heap: pre, old: pre, ghost: preGhost, oldGhost: preGhost, vars: vars, facts: false, pkg: c.pkg}
	locs := x.evalLocs(st, fc.Assigns, cPre)
	if !fc.HasAssigns && !fc.Pure {
		panic(unsupported("contract of " + key + " has neither assigns nor pure"))
	}
	for _, l := range locs {
		x.calleeFrameDuty(st, l, key, pos)
	}
	// a callee of the verified packages that acquires the mutex of object r (its contract assigns held[r]) opens a
	// critical section of its own: for the one-critical-section-per-method duty it counts like a Lock of r here
	if !fc.Trusted && !strings.Contains(key, "->") {
		for _, l := range locs {
			if l.ghost == "held" && l.gkey != nil {
				for _, r := range st.locks {
					if same(r, l.gkey) {
						x.oblige(st, "lock-once", x.pos(pos), "one critical section per method (linearization point): "+key+" locks the same mutex again", []string{"C14"}, tFalse)
					}
				}
				st.locks = append(st.locks, l.gkey)
			}
		}
	}
	for _, l := range locs {
		x.havocLoc(st, l)
	}
	if fc.Allocates {
		x.havocAlloc(st)
	}
	// results
	var res Value
	switch results.Len() {
	case 0:
		res = Tup{}
	case 1:
		res = st.freshValue(fresh("res."+shortKey(key)), results.At(0).Type())
		vars["result"] = res
	default:
		var t Tup
		for i := 0; i < results.Len(); i++ {
			v := st.freshValue(fresh(fmt.Sprintf("res%d.%s", i, shortKey(key))), results.At(i).Type())
			t = append(t, v)
			vars[fmt.Sprintf("result%d", i)] = v
		}
		res = t
	}
	if fc.ResultType != "" {
		if iv, ok := res.(If); ok {
			if t := x.p.lookupType(fc.ResultType); t != nil {
				iv.Dyn = t
				if pt, isP := t.Underlying().(*types.Pointer); isP {
					iv.DynVal = Ptr{R: iv.Pl, I: Int(0), Root: pt.Elem(), Elem: pt.Elem()}
				}
				st.assume(Eq(iv.Tag, Int(x.p.typeID(t))))
				res = iv
				vars["result"] = res
			} else {
				x.fail("resulttype %s: unknown type", fc.ResultType)
			}
		}
	}
	// mem(x) also covers the region x occupies after the call (reallocation)
	cPost := &evalCtx{x: x, st: st, heap: st.heap, old: pre, ghost: st.ghost, oldGhost: preGhost, vars: vars, facts: true, pkg: c.pkg}
	for _, cl := range fc.Assigns {
		for _, e := range cl.Locs {
			if isMemLoc(e) {
				func() {
					defer func() {
						if r := recover(); r != nil {
							if _, ok := r.(evalErr); !ok {
								panic(r)
							}
						}
					}()
					cPost.where = cl.Line
					for _, l := range cPost.evalLoc(e) {
						if l.mem {
							x.havocLoc(st, l)
						}
					}
				}()
			}
		}
	}
	cPost.heap = st.heap
	before := append([]*Term(nil), st.hyps...)
	for _, cl := range fc.Ensures {
		st.assume(x.evalBool(st, cl, cPost))
	}
	if !x.deriving {
		for _, cl := range fc.Derives {
			st.assume(x.evalBool(st, cl, cPost))
		}
	}
	if len(fc.Ensures) > 0 {
		x.addSmoke("call-"+shortKey(key)+"@"+site, before, st)
	}
	if fc.ViewResult {
		if sl, ok := res.(Sl); ok {
			sl.View = true
			res = sl
		}
		if tv, ok := res.(Tup); ok {
			nt := append(Tup(nil), tv...)
			for i, e := range nt {
				if sl, ok := e.(Sl); ok {
					sl.View = true
					nt[i] = sl
				}
			}
			res = nt
		}
	}
	return res
}

func isMemLoc(e ast.Expr) bool {
	if call, ok := e.(*ast.CallExpr); ok {
		if id, ok := call.Fun.(*ast.Ident); ok && id.Name == "mem" {
			return true
		}
	}
	return false
}

func shortKey(k string) string {
	r := strings.NewReplacer("(", "", ")", "", "*", "", "/", ".", " ", "")
	k = r.Replace(k)
	if i := strings.LastIndex(k, "."); i >= 0 && strings.Count(k, ".") > 1 {
		j := strings.LastIndex(k[:i], ".")
		k = k[j+1:]
	}
	return k
}

func (x *Exec) contractPkg(fc *FuncContract) *types.Package {
	for pkg, cs := range x.p.cs {
		for _, f := range cs.Funcs {
			if f == fc {
				if sp, ok := x.p.pkgs[pkg]; ok {
					return sp.Pkg
				}
			}
		}
	}
	if x.fn.Pkg != nil {
		return x.fn.Pkg.Pkg
	}
	return nil
}

// calleeFrameDuty: a location the callee may assign must be assignable by the caller.
func (x *Exec) calleeFrameDuty(st *State, l loc, key string, pos token.Pos) {
	if l.ghost != "" {
		// ghost state: the caller must list the same ghost variable in its own assigns clause
		if x.fc != nil && x.fc.HasAssigns {
			ok := false
			for _, el := range x.entryLocs(st) {
				if el.all || el.ghost == l.ghost {
					ok = true
				}
			}
			if !ok {
				x.oblige(st, "frame", x.pos(pos), fmt.Sprintf("callee %s assigns ghost %s", key, l.ghost), x.framePropsOr(), tFalse)
			}
		}
		return
	}
	what := fmt.Sprintf("callee %s assigns %s", key, l.src)
	if l.all {
		if x.fc != nil && x.fc.HasAssigns {
			ok := false
			for _, el := range x.entryLocs(st) {
				if el.all {
					ok = true
				}
			}
			if !ok {
				x.oblige(st, "frame", x.pos(pos), what, x.allProps(), tFalse)
			}
		}
		return
	}
	if l.mapv != nil {
		x.mapFrameDuty(st, *l.mapv, pos, what)
		return
	}
	if l.mem {
		if l.r != nil && l.r.IsInt() && l.r.Val.Sign() == 0 {
			return // the memory of a nil slice: there is none
		}
		x.frameDutyRegion(st, l.root, l.r, pos, what)
		return
	}
	if l.rng {
		x.frameDutyRange(st, l, pos, what)
		return
	}
	// object leaves: reuse frameDuty with a synthetic path
	x.frameDutyPrefix(st, l.root, l.r, l.i, l.prefix, pos, what)
}

func (x *Exec) frameDutyRegion(st *State, root types.Type, r *Term, pos token.Pos, what string) {
	if r.IsInt() && r.Val.Sign() == 0 {
		return // the nil slice owns no memory
	}
	for fr2 := st.top; fr2 != nil; fr2 = fr2.parent {
		for h, snap := range fr2.loops {
			if snap == nil || !fr2.info.loopBlks[h][fr2.block.Index] || snap.locs == nil {
				continue
			}
			if isFreshSym(r) && symNo(r.Name) > snap.gensym {
				continue
			}
			goal := Not(Select(snap.heap.alloc, r))
			for _, l := range snap.locs {
				if l.all || (l.mem && canon(l.root) == canon(root)) {
					goal = Or(goal, l.covers(root, r, Int(0), ""))
				}
			}
			x.oblige(st, "frame-loop", x.pos(pos), what, x.allProps(), goal)
		}
	}
	if x.fc == nil || !x.fc.HasAssigns || isFreshSym(r) {
		return
	}
	goal := Or(Not(Select(st.old.alloc, r)), Eq(r, Int(0))) // region 0 (nil) owns no memory
	for _, l := range x.entryLocs(st) {
		if l.all || (l.mem && canon(l.root) == canon(root)) {
			goal = Or(goal, l.covers(root, r, Int(0), ""))
		}
	}
	x.oblige(st, "frame", x.pos(pos), what, x.framePropsOr(), goal)
}

func (x *Exec) framePropsOr() []string {
	var props []string
	if x.fc != nil {
		for _, a := range x.fc.Assigns {
			props = append(props, a.Props...)
		}
	}
	if len(props) == 0 {
		props = x.allProps()
	}
	return props
}

func (x *Exec) frameDutyPrefix(st *State, root types.Type, r, i *Term, prefix string, pos token.Pos, what string) {
	for fr2 := st.top; fr2 != nil; fr2 = fr2.parent {
		for h, snap := range fr2.loops {
			if snap == nil || !fr2.info.loopBlks[h][fr2.block.Index] || snap.locs == nil {
				continue
			}
			if isFreshSym(r) && symNo(r.Name) > snap.gensym {
				continue
			}
			goal := Not(Select(snap.heap.alloc, r))
			for _, l := range snap.locs {
				goal = Or(goal, l.covers(root, r, i, prefix))
			}
			x.oblige(st, "frame-loop", x.pos(pos), what, x.allProps(), goal)
		}
	}
	if x.fc == nil || !x.fc.HasAssigns || isFreshSym(r) {
		return
	}
	goal := Not(Select(st.old.alloc, r))
	for _, l := range x.entryLocs(st) {
		goal = Or(goal, l.covers(root, r, i, prefix))
	}
	x.oblige(st, "frame", x.pos(pos), what, x.framePropsOr(), goal)
}

// ---- post-conditions ----

func (x *Exec) checkPost(st *State, fr *Frame, res Value, pos token.Pos) {
	if x.fc == nil {
		return
	}
	vars := map[string]Value{}
	if t, ok := res.(Tup); ok {
		for i, v := range t {
			vars[fmt.Sprintf("result%d", i)] = v
		}
		if len(t) == 1 {
			vars["result"] = t[0]
		}
	} else {
		vars["result"] = res
	}
	c := x.ctxFor(st, fr, st.old, vars)
	if ic := x.invCtx(st, fr, nil, nil, nil); ic != nil {
		c.names, c.iter = ic.names, ic.iter
	}
	c.localsFirst = true
	// proof steps: each assert is proved at this return with the locals in scope, then assumed
	for _, cl := range x.fc.Asserts {
		if !c.resolvable(cl.Expr) {
			continue // a proof step about locals that do not exist at this return
		}
		if cl.Kind == "use" {
			if t := x.useLemma(st, cl, c); t != nil {
				st.assume(t)
			}
			continue
		}
		t := x.evalBool(st, cl, c)
		site := fmt.Sprintf("%s@%s", lineOf(cl.Line), x.pos(pos))
		x.oblige(st, "assert", site, cl.Src, x.allProps(), t)
		st.assume(t)
	}
	c.names = nil
	c.localsFirst = false
	for _, cl := range x.fc.Ensures {
		t := x.evalBool(st, cl, c)
		site := fmt.Sprintf("%s@%s", lineOf(cl.Line), x.pos(pos))
		x.oblige(st, "ensures", site, cl.Src, cl.Props, t)
	}
	x.checkGhostPost(st, pos)
}

func lineOf(where string) string {
	if i := strings.LastIndex(where, "/"); i >= 0 {
		return where[i+1:]
	}
	return where
}

// ---- loops ----

func (x *Exec) loopContract(fr *Frame, ord int) *LoopContract {
	fc := x.fc
	if fr.fn != x.fn {
		fc = x.p.contractFor(fr.fn)
	}
	if fc == nil {
		return nil
	}
	return fc.Loops[ord]
}

func (x *Exec) phiEdgeValues(st *State, fr *Frame, from, to *ssa.BasicBlock) ([]*ssa.Phi, []Value) {
	pidx := -1
	for k, p := range to.Preds {
		if p == from {
			pidx = k
		}
	}
	var phis []*ssa.Phi
	var vals []Value
	for _, ins := range to.Instrs {
		ph, ok := ins.(*ssa.Phi)
		if !ok {
			break
		}
		phis = append(phis, ph)
		vals = append(vals, x.val(st, fr, ph.Edges[pidx]))
	}
	return phis, vals
}

func (x *Exec) invCtx(st *State, fr *Frame, phis []*ssa.Phi, vals []Value, snap *loopSnap) *evalCtx {
	names := map[string]Value{}
	for k, v := range fr.names {
		names[k] = v
	}
	counts := map[string]int{}
	for k, ph := range phis {
		if ph.Comment != "" {
			names[ph.Comment] = vals[k]
			counts[ph.Comment]++
			// ordinal-qualified name (rangeindex0, rangeindex1, ...) to tell nested range loops apart
			if ord, ok := fr.info.headers[ph.Block().Index]; ok {
				names[fmt.Sprintf("%s%d", ph.Comment, ord)] = vals[k]
			}
		}
		names[ph.Name()] = vals[k]
	}
	// phis of enclosing loops keep their ordinal-qualified names
	for v, val := range fr.env {
		if ph, ok := v.(*ssa.Phi); ok && ph.Comment != "" {
			if ord, ok := fr.info.headers[ph.Block().Index]; ok {
				key := fmt.Sprintf("%s%d", ph.Comment, ord)
				if _, set := names[key]; !set {
					names[key] = val
				}
			}
		}
	}
	for _, v := range fr.env {
		if it, ok := v.(Iter); ok {
			if p, ok := st.ghost[it.Name+".pos"]; ok {
				names["rangepos"] = Sc{p}
				names["rangelen"] = Sc{it.N}
				names["rangeseq"] = Ar{A: it.Seq, N: 1 << 30}
			}
		}
	}
	c := x.ctxFor(st, fr, st.old, nil)
	c.names = names
	if snap != nil {
		c.loop = snap.heap
		c.loopGhost = snap.ghost
	}
	for _, v := range fr.env {
		if it, ok := v.(Iter); ok {
			itc := it
			c.iter = &itc
		}
	}
	return c
}

func (x *Exec) loopEnter(st *State, fr *Frame, from, to *ssa.BasicBlock, ord int) {
	lc := x.loopContract(fr, ord)
	if lc == nil {
		_, k := funcKey(fr.fn)
		panic(unsupported(fmt.Sprintf("loop %d of %s has no invariant", ord, k)))
	}
	phis, vals := x.phiEdgeValues(st, fr, from, to)
	site := fmt.Sprintf("loop%d@%s", ord, x.pos(to.Instrs[len(to.Instrs)-1].Pos()))
	_, fkey := funcKey(fr.fn)
	if fr.fn != x.fn {
		site = fkey + "." + site
	}
	snap := &loopSnap{heap: st.heap.clone(), ghost: map[string]*Term{}, gensym: gensym}
	for k, v := range st.ghost {
		snap.ghost[k] = v
	}
	// 1. invariant holds on entry
	c := x.invCtx(st, fr, phis, vals, snap)
	for _, cl := range lc.Invariants {
		t := x.evalBool(st, cl, c)
		x.oblige(st, "invariant-entry", site+":"+lineOf(cl.Line), cl.Src, x.allProps(), t)
	}
	// 2. havoc
	if lc.HasAssigns {
		cl := x.invCtx(st, fr, phis, vals, snap)
		cl.facts = false
		snap.locs = x.evalLocs(st, lc.Assigns, cl)
		if snap.locs == nil {
			snap.locs = []loc{}
		}
		for _, l := range snap.locs {
			x.havocLoc(st, l)
		}
	} else {
		roots, allocs, need, allocsW := x.loopWrites(fr.fn, to.Index)
		if need != "" {
			panic(unsupported(fmt.Sprintf("loop %d of %s needs an assigns clause: %s", ord, fkey, need)))
		}
		for al := range allocsW {
			if pv, ok := fr.env[al].(Ptr); ok {
				if pv.ArrRegion {
					x.havocLoc(st, loc{mem: true, root: pv.Root, r: pv.R})
				} else {
					x.havocLoc(st, loc{root: pv.Root, r: pv.R, i: pv.I, typ: pv.Elem})
				}
			}
		}
		for _, root := range roots {
			walkType(root, "", func(lf leaf, _ types.Type, _ string) {
				name := familyName(root, lf.path)
				st.heap.family(name, lf.sort)
				st.heap.fam[name] = Sym(fresh(name), arrSort(SInt, arrSort(SInt, lf.sort)))
			})
		}
		if allocs {
			x.havocAlloc(st)
		}
	}
	if x.loopAllocates(fr.fn, to.Index) && lc.HasAssigns {
		x.havocAlloc(st)
	}
	// ghost positions of map iterators advanced inside the loop
	for _, b := range fr.fn.Blocks {
		if !fr.info.loopBlks[to.Index][b.Index] {
			continue
		}
		for _, ins := range b.Instrs {
			if nx, ok := ins.(*ssa.Next); ok {
				if it, ok := fr.env[nx.Iter].(Iter); ok {
					p := Sym(fresh("rangepos"), SInt)
					st.ghost[it.Name+".pos"] = p
				}
			}
		}
	}
	var nvals []Value
	for _, ph := range phis {
		name := ph.Comment
		if name == "" {
			name = ph.Name()
		}
		v := st.freshValue(fresh(name), ph.Type())
		nvals = append(nvals, v)
	}
	// mem(x) in a loop assigns clause also covers the region x occupies at the (havoced) header state
	if lc.HasAssigns {
		c2 := x.invCtx(st, fr, phis, nvals, snap)
		c2.facts = false
		for _, acl := range lc.Assigns {
			for _, e := range acl.Locs {
				if isMemLoc(e) {
					func() {
						defer func() {
							if r := recover(); r != nil {
								if _, ok := r.(evalErr); !ok {
									panic(r)
								}
							}
						}()
						for _, l := range c2.evalLoc(e) {
							if l.mem {
								x.havocLoc(st, l)
							}
						}
					}()
				}
			}
		}
	}
	for k, ph := range phis {
		fr.env[ph] = nvals[k]
		if ph.Comment != "" {
			fr.names[ph.Comment] = nvals[k]
		}
	}
	// 3. assume the invariant in the havoced state
	c3 := x.invCtx(st, fr, phis, nvals, snap)
	before := append([]*Term(nil), st.hyps...)
	for _, cl := range lc.Invariants {
		st.assume(x.evalBool(st, cl, c3))
	}
	for _, cl := range lc.Uses {
		if t := x.useLemma(st, cl, c3); t != nil {
			st.assume(t)
		}
	}
	x.addSmoke(site, before, st)
	if lc.Decreases != nil {
		if v, ok := x.evalTerm(st, lc.Decreases.Expr, lc.Decreases.Line, c3); ok {
			snap.variant = v
		}
	}
	fr.loops[to.Index] = snap
}

func (x *Exec) loopBack(st *State, fr *Frame, from, to *ssa.BasicBlock, ord int) {
	lc := x.loopContract(fr, ord)
	snap := fr.loops[to.Index]
	if lc == nil || snap == nil {
		panic(unsupported("back edge without loop entry"))
	}
	phis, vals := x.phiEdgeValues(st, fr, from, to)
	site := fmt.Sprintf("loop%d@%s", ord, x.pos(to.Instrs[len(to.Instrs)-1].Pos()))
	if fr.fn != x.fn {
		_, fkey := funcKey(fr.fn)
		site = fkey + "." + site
	}
	c := x.invCtx(st, fr, phis, vals, snap)
	for _, cl := range lc.Uses {
		if t := x.useLemma(st, cl, c); t != nil {
			st.assume(t)
		}
	}
	for _, cl := range lc.Invariants {
		t := x.evalBool(st, cl, c)
		x.oblige(st, "invariant-preserved", site+":"+lineOf(cl.Line), cl.Src, x.allProps(), t)
		// cut: a clause that has its own proof duty may serve as a hypothesis for the clauses after it
		st.assume(t)
	}
	if lc.Decreases != nil && snap.variant != nil {
		if v, ok := x.evalTerm(st, lc.Decreases.Expr, lc.Decreases.Line, c); ok {
			x.oblige(st, "variant", site, "loop variant decreases and is bounded below: "+lc.Decreases.Src, x.allProps(),
				And(Le(Int(0), snap.variant), Lt(v, snap.variant)))
		}
	}
}

// loopWrites: root types whose families may be written inside the loop (static approximation).
func (x *Exec) loopWrites(fn *ssa.Function, header int) (roots []types.Type, allocs bool, need string, allocsW map[*ssa.Alloc]bool) {
	fi := x.p.info(fn)
	allocsW = map[*ssa.Alloc]bool{}
	seen := map[string]bool{}
	add := func(t types.Type) {
		if !seen[canon(t)] {
			seen[canon(t)] = true
			roots = append(roots, t)
		}
	}
	var scan func(fn *ssa.Function, blocks map[int]bool, depth int)
	scan = func(fn *ssa.Function, blocks map[int]bool, depth int) {
		for _, b := range fn.Blocks {
			if blocks != nil && !blocks[b.Index] {
				continue
			}
			for _, ins := range b.Instrs {
				switch i := ins.(type) {
				case *ssa.Store:
					if al := addrAlloc(i.Addr); al != nil && depth == 0 {
						if !fi.loopBlks[header][al.Block().Index] {
							allocsW[al] = true
						}
						// allocated inside the loop: fresh each iteration, nothing to havoc
						continue
					}
					if rt := addrRoot(i.Addr); rt != nil {
						add(rt)
					} else {
						need = "store through untracked pointer " + i.Addr.Name()
					}
				case *ssa.Alloc, *ssa.MakeSlice, *ssa.MakeMap, *ssa.MakeClosure, *ssa.MakeInterface:
					allocs = true
					if a, ok := i.(*ssa.Alloc); ok {
						et := a.Type().(*types.Pointer).Elem()
						if _, priv := privateLocal(a); priv {
							continue // lives in families of its own, fresh in every iteration: nothing shared is written
						}
						if at, ok := et.Underlying().(*types.Array); ok {
							add(at.Elem())
						} else {
							add(et)
						}
					}
				case *ssa.MapUpdate:
					need = "map update in loop"
				case ssa.CallInstruction:
					cc := i.Common()
					if b, ok := cc.Value.(*ssa.Builtin); ok {
						switch b.Name() {
						case "append":
							allocs = true
							add(cc.Args[0].Type().Underlying().(*types.Slice).Elem())
						case "copy":
							add(cc.Args[0].Type().Underlying().(*types.Slice).Elem())
						case "delete":
							need = "map delete in loop"
						}
						continue
					}
					if callee := cc.StaticCallee(); callee != nil && !cc.IsInvoke() {
						fc := x.p.contractFor(callee)
						pkg, _ := funcKey(callee)
						if callee.Blocks != nil && x.p.verified[pkg] && (callee.Parent() != nil || (fc != nil && fc.Transparent)) {
							if depth < 4 {
								scan(callee, nil, depth+1)
							}
							continue
						}
						if fc != nil && (fc.Pure || (fc.HasAssigns && len(fc.Assigns) == 1 && len(fc.Assigns[0].Locs) == 0)) {
							if fc.Allocates {
								allocs = true
							}
							continue
						}
					}
					need = "call in loop: " + ins.String()
				}
			}
		}
	}
	scan(fn, fi.loopBlks[header], 0)
	return
}

func (x *Exec) loopAllocates(fn *ssa.Function, header int) bool {
	fi := x.p.info(fn)
	for _, b := range fn.Blocks {
		if !fi.loopBlks[header][b.Index] {
			continue
		}
		for _, ins := range b.Instrs {
			switch i := ins.(type) {
			case *ssa.Alloc, *ssa.MakeSlice, *ssa.MakeMap, *ssa.MakeClosure:
				return true
			case ssa.CallInstruction:
				if bb, ok := i.Common().Value.(*ssa.Builtin); ok {
					if bb.Name() == "append" {
						return true
					}
					continue
				}
				return true
			}
		}
	}
	return false
}

// addrRoot: static root type of the region a stored-to address lives in.
func addrRoot(v ssa.Value) types.Type {
	switch a := v.(type) {
	case *ssa.FieldAddr:
		if r := addrRoot(a.X); r != nil {
			return r
		}
		return a.X.Type().Underlying().(*types.Pointer).Elem()
	case *ssa.IndexAddr:
		switch t := a.X.Type().Underlying().(type) {
		case *types.Slice:
			return t.Elem()
		case *types.Pointer:
			if r := addrRootArr(a.X); r != nil {
				return r
			}
			return t.Elem().Underlying().(*types.Array).Elem()
		}
	case *ssa.Alloc:
		et := a.Type().(*types.Pointer).Elem()
		if at, ok := et.Underlying().(*types.Array); ok {
			return at.Elem()
		}
		return et
	case *ssa.Parameter, *ssa.UnOp, *ssa.Call, *ssa.Phi, *ssa.Extract, *ssa.FreeVar, *ssa.TypeAssert, *ssa.ChangeType, *ssa.Convert:
		if pt, ok := v.Type().Underlying().(*types.Pointer); ok {
			return pt.Elem()
		}
	}
	return nil
}

// addrRootArr: for a pointer-to-array that is a field of a struct, the struct root.
func addrRootArr(v ssa.Value) types.Type {
	if fa, ok := v.(*ssa.FieldAddr); ok {
		return addrRoot(fa)
	}
	return nil
}

// addrAlloc: the local Alloc an address is derived from (through field/index address computations), or nil.
func addrAlloc(v ssa.Value) *ssa.Alloc {
	switch a := v.(type) {
	case *ssa.Alloc:
		return a
	case *ssa.FieldAddr:
		return addrAlloc(a.X)
	case *ssa.IndexAddr:
		if _, ok := a.X.Type().Underlying().(*types.Pointer); ok {
			return addrAlloc(a.X)
		}
	}
	return nil
}

// frameDutyRange: every index of the callee's range [lo,hi) of region r must be assignable by the caller.
func (x *Exec) frameDutyRange(st *State, l loc, pos token.Pos, what string) {
	if l.r.IsInt() && l.r.Val.Sign() == 0 {
		return
	}
	mk := func(alloc *Term, locs []loc) *Term {
		p := Sym(fresh("p"), SInt)
		cov := tFalse
		for _, cl := range locs {
			cov = Or(cov, cl.covers(l.root, l.r, p, ""))
		}
		return Or(Not(Select(alloc, l.r)), Eq(l.r, Int(0)), Le(l.hi, l.lo), Forall([]*Term{p}, Implies(And(Le(l.lo, p), Lt(p, l.hi)), cov)))
	}
	for fr2 := st.top; fr2 != nil; fr2 = fr2.parent {
		for h, snap := range fr2.loops {
			if snap == nil || !fr2.info.loopBlks[h][fr2.block.Index] || snap.locs == nil {
				continue
			}
			if isFreshSym(l.r) && symNo(l.r.Name) > snap.gensym {
				continue
			}
			x.oblige(st, "frame-loop", x.pos(pos), what, x.allProps(), mk(snap.heap.alloc, snap.locs))
		}
	}
	if x.fc == nil || !x.fc.HasAssigns || isFreshSym(l.r) {
		return
	}
	x.oblige(st, "frame", x.pos(pos), what, x.framePropsOr(), mk(st.old.alloc, x.entryLocs(st)))
}

// useLemma: instance of a proved lemma at explicit arguments (assumed; the lemma has its own proof obligations).
func (x *Exec) useLemma(st *State, cl *Clause, c *evalCtx) (res *Term) {
	defer func() {
		if r := recover(); r != nil {
			if ee, ok := r.(evalErr); ok {
				x.fail("contract error: %s", ee.msg)
				res = nil
				return
			}
			panic(r)
		}
	}()
	c.where = cl.Line
	return x.useTerm(st, cl, cl.Expr, c)
}

// useTerm: a use clause is assumed, so it must be valid by construction. Its grammar is therefore restricted to
//
//	U ::= lemma(args) | forall(k, lo, hi, U, patterns...) | U && U | P ==> U
//
// i.e. (guarded, quantified) instances of separately proved lemmas; nothing else can be smuggled in.
func (x *Exec) useTerm(st *State, cl *Clause, e ast.Expr, c *evalCtx) *Term {
	switch n := e.(type) {
	case *ast.ParenExpr:
		return x.useTerm(st, cl, n.X, c)
	case *ast.BinaryExpr:
		if n.Op == token.LAND {
			return And(x.useTerm(st, cl, n.X, c), x.useTerm(st, cl, n.Y, c))
		}
	case *ast.CallExpr:
		id, ok := n.Fun.(*ast.Ident)
		if !ok {
			break
		}
		switch id.Name {
		case "implies":
			if len(n.Args) == 2 {
				return Implies(c.term(n.Args[0]), x.useTerm(st, cl, n.Args[1], c))
			}
		case "forall":
			if len(n.Args) >= 4 {
				v, ok := n.Args[0].(*ast.Ident)
				if !ok {
					break
				}
				lo, hi := c.term(n.Args[1]), c.term(n.Args[2])
				bv := Sym(c.boundName(v.Name), SInt)
				cc := c.with(map[string]Value{v.Name: Sc{bv}})
				cc.facts = false
				body := x.useTerm(st, cl, n.Args[3], cc)
				var pats []*Term
				for _, pe := range n.Args[4:] {
					pats = append(pats, scT(cc.rv(cc.eval(pe))))
				}
				// hypotheses of the lemma that do not mention the bound variable are hoisted out of the quantifier:
				// (forall k. C && R(k) ==> B(k))  is  C ==> forall k. R(k) ==> B(k); a C that is literally known then
				// disappears when the clause is assumed
				var closed []*Term
				for body.Op == "=>" && len(body.Args) == 2 {
					var keep []*Term
					for _, c := range conjuncts(body.Args[0]) {
						if hasSymP(c, func(n string) bool { return n == bv.Name }) {
							keep = append(keep, c)
						} else {
							closed = append(closed, c)
						}
					}
					body = Implies(And(keep...), body.Args[1])
					if len(keep) > 0 {
						break
					}
				}
				return Implies(And(closed...), Forall([]*Term{bv}, Implies(And(Le(lo, bv), Lt(bv, hi)), body), pats...))
			}
		default:
			return x.lemmaInstance(st, cl, n, c)
		}
	}
	c.errf("use: only lemma(args), forall(k, lo, hi, U, patterns...), U && U and P ==> U are allowed (%s)", cl.Line)
	return nil
}

func (x *Exec) lemmaInstance(st *State, cl *Clause, call *ast.CallExpr, c *evalCtx) *Term {
	name := call.Fun.(*ast.Ident).Name
	var ax *Axiom
	for _, a := range x.p.spec.Axioms {
		if a.Name == name && a.Lemma {
			ax = a
		}
	}
	if ax == nil || len(ax.Params) != len(call.Args) {
		c.errf("use: no lemma %s with %d parameters (%s)", name, len(call.Args), cl.Line)
	}
	vars := map[string]Value{}
	guard := tTrue
	for i, prm := range ax.Params {
		v := c.rv(c.eval(call.Args[i]))
		vars[prm.Name] = v
		var w uint
		if n, _ := fmt.Sscanf(prm.Typ, "bv%d", &w); n == 1 {
			t := scT(v)
			guard = And(guard, Le(Int(0), t), Lt(t, pow2(int64(w))))
		}
	}
	cc := &evalCtx{x: x, st: st, heap: st.heap, vars: vars, facts: false, where: "lemma " + ax.Name, ghost: st.ghost}
	body := cc.term(ax.Body)
	if ax.Req != nil {
		body = Implies(cc.term(ax.Req), body)
	}
	return Implies(guard, body)
}

// lookupType resolves "*T" / "T" against the verified packages.
func (p *Program) lookupType(name string) types.Type {
	if strings.HasPrefix(name, "*") {
		if t := p.lookupType(name[1:]); t != nil {
			return types.NewPointer(t)
		}
		return nil
	}
	if k := strings.LastIndex(name, "."); k >= 0 {
		// qualified: <package name or path>.<Type>
		q, n := name[:k], name[k+1:]
		for _, sp := range p.prog.AllPackages() {
			if sp.Pkg.Path() == q || sp.Pkg.Name() == q {
				if tn, ok := sp.Pkg.Scope().Lookup(n).(*types.TypeName); ok {
					return tn.Type()
				}
			}
		}
		return nil
	}
	for pkg := range p.verified {
		if sp, ok := p.pkgs[pkg]; ok {
			if tn, ok := sp.Pkg.Scope().Lookup(name).(*types.TypeName); ok {
				return tn.Type()
			}
		}
	}
	return nil
}

// recursionDuty: a static call that closes a cycle of the call graph must come with a measure
// (decreases clause on caller and callee) that is bounded below and strictly smaller at the call.
func (x *Exec) recursionDuty(st *State, fr *Frame, fn *ssa.Function, fc *FuncContract, args []Value, pos token.Pos) {
	_, ckey := funcKey(fn)
	what := fmt.Sprintf("call of %s closes a call cycle back to %s: termination needs a decreasing measure", ckey, x.key)
	if x.fc == nil || x.fc.Decreases == nil || fc == nil || fc.Decreases == nil || x.entry == nil {
		return // reported by staticRecursion
	}
	// caller's measure at entry
	ce := &evalCtx{x: x, st: x.entry, heap: x.entry.heap, ghost: x.entry.ghost, vars: x.params, pkg: x.contractPkg(x.fc)}
	m0, ok0 := x.evalTerm(st, x.fc.Decreases.Expr, x.fc.Decreases.Line, ce)
	vars := map[string]Value{}
	names := fc.Params
	if names == nil {
		for _, prm := range fn.Params {
			names = append(names, prm.Name())
		}
	}
	for i, a := range args {
		if i < len(names) {
			vars[names[i]] = a
		}
	}
	cc := &evalCtx{x: x, st: st, heap: st.heap, ghost: st.ghost, vars: vars, pkg: x.contractPkg(fc)}
	m1, ok1 := x.evalTerm(st, fc.Decreases.Expr, fc.Decreases.Line, cc)
	if !ok0 || !ok1 {
		x.oblige(st, "termination-call", x.pos(pos), what+" (measure not evaluable)", x.allProps(), tFalse)
		return
	}
	x.oblige(st, "termination-call", x.pos(pos), what, x.allProps(), And(Le(Int(0), m0), Lt(m1, m0)))
}

// valueOnlySig: every parameter and result is a boolean, number or string (possibly a named type of those).
func valueOnlySig(sig *types.Signature) bool {
	if sig.Recv() != nil || sig.Variadic() {
		return false
	}
	ok := func(t *types.Tuple) bool {
		for i := 0; i < t.Len(); i++ {
			b, isB := t.At(i).Type().Underlying().(*types.Basic)
			if !isB || b.Kind() == types.UnsafePointer || b.Info()&(types.IsBoolean|types.IsNumeric|types.IsString) == 0 {
				return false
			}
			if b.Info()&(types.IsFloat|types.IsComplex) != 0 {
				return false
			}
		}
		return true
	}
	return ok(sig.Params()) && ok(sig.Results())
}

// staticRecursion: termination duties that do not depend on the path: every static call that closes a
// call cycle where caller or callee has no decreases clause. Emitted once per call site before the
// paths are run, so that they are reported even when the paths leave the supported subset.
func (x *Exec) staticRecursion(st *State) {
	var scan func(g *ssa.Function)
	scan = func(g *ssa.Function) {
		for _, b := range g.Blocks {
			for _, in := range b.Instrs {
				var cc *ssa.CallCommon
				switch i := in.(type) {
				case *ssa.Call:
					cc = &i.Call
				case *ssa.Defer:
					cc = &i.Call
				case *ssa.Go:
					cc = &i.Call
				}
				if cc == nil {
					continue
				}
				t := cc.StaticCallee()
				if t == nil || t.Pkg == nil || !x.p.verified[t.Pkg.Pkg.Path()] || t.Blocks == nil || t.Parent() != nil {
					continue
				}
				if !x.p.callCycle(x.fn, t) {
					continue
				}
				tc := x.p.contractFor(t)
				if x.fc != nil && x.fc.Decreases != nil && tc != nil && tc.Decreases != nil {
					continue // path-sensitive measure duty at the call
				}
				_, ckey := funcKey(t)
				x.oblige(st, "termination-call", x.pos(in.Pos()),
					fmt.Sprintf("call of %s closes a call cycle back to %s and there is no decreasing measure: recursion depth is not bounded", ckey, x.key),
					x.allProps(), tFalse)
			}
		}
		for _, a := range g.AnonFuncs {
			scan(a)
		}
	}
	scan(x.fn)
}

// staticLoopPolls: `loop n ... polls <field>`: a goroutine that is stopped through a channel must look at that channel on
// every trip round its loop, whatever the outcome of what it does in between (a read that keeps failing, a timeout).
// Structural duty on the control-flow graph: inside the natural loop, no cycle through the header avoids the blocks
// that select on / receive from the channel loaded from that field. (That the goroutine then really exits, and that
// nothing blocks for ever inside an iteration, is scheduling and liveness: not decided.)
func (x *Exec) staticLoopPolls(st *State) {
	if x.fc == nil {
		return
	}
	fi := x.p.info(x.fn)
	isStop := func(v ssa.Value, field string) bool {
		u, ok := v.(*ssa.UnOp)
		if !ok || u.Op != token.MUL {
			return false
		}
		fa, ok := u.X.(*ssa.FieldAddr)
		if !ok {
			return false
		}
		stt, ok := fa.X.Type().Underlying().(*types.Pointer).Elem().Underlying().(*types.Struct)
		return ok && stt.Field(fa.Field).Name() == field
	}
	for hdr, ord := range fi.headers {
		lc := x.fc.Loops[ord]
		if lc == nil || lc.Polls == "" {
			continue
		}
		in := fi.loopBlks[hdr]
		polls := map[int]bool{}
		for _, b := range x.fn.Blocks {
			if !in[b.Index] {
				continue
			}
			for _, ins := range b.Instrs {
				switch i := ins.(type) {
				case *ssa.Select:
					for _, s := range i.States {
						if isStop(s.Chan, lc.Polls) {
							polls[b.Index] = true
						}
					}
				case *ssa.UnOp:
					if i.Op == token.ARROW && isStop(i.X, lc.Polls) {
						polls[b.Index] = true
					}
				}
			}
		}
		ok := true
		if !polls[hdr] {
			// is the header reachable from itself inside the loop without passing a polling block?
			seen := map[int]bool{}
			var dfs func(b *ssa.BasicBlock) bool
			dfs = func(b *ssa.BasicBlock) bool {
				for _, s := range b.Succs {
					if !in[s.Index] || polls[s.Index] {
						continue
					}
					if s.Index == hdr {
						return true
					}
					if !seen[s.Index] {
						seen[s.Index] = true
						if dfs(s) {
							return true
						}
					}
				}
				return false
			}
			ok = !dfs(x.fn.Blocks[hdr])
		}
		if !ok {
			x.oblige(st, "loop-polls", fmt.Sprintf("loop%d@%s", ord, x.pos(x.fn.Blocks[hdr].Instrs[0].Pos())),
				"a path around the loop does not look at the stop channel "+lc.Polls+": the goroutine cannot be stopped while it takes that path", lc.PollsProps, tFalse)
		}
	}
}

// shortIface: "github.com/pion/stun/v3.ClientAgent.Stop" -> "ClientAgent.Stop" for interfaces of the verified packages
func shortIface(key string) string {
	for _, pkg := range []string{pkgStun + ".", pkgHmac + "."} {
		if strings.HasPrefix(key, pkg) {
			return strings.TrimPrefix(key, pkg)
		}
	}
	return key
}
