package main

import (
	"strings"
)

// Skolemised variant of an obligation (a second, logically equivalent way of asking the same question).
//
//  1. The goal's leading universal quantifiers are replaced by fresh constants and the antecedents of its
//     implications become hypotheses:   H |- forall k. R(k) => forall j. S(j) => B(k,j)
//     becomes                          H, R(K), S(J) |- B(K,J).      (sound and complete: K, J are fresh)
//  2. Every quantified hypothesis is additionally instantiated at the index terms of the goal (the skolem constants
//     and the array-index / spec-function arguments built from them); universal quantifiers in positive positions of
//     the instances are in turn replaced by the conjunction of their instances. Instances of hypotheses are
//     consequences of the hypotheses, so adding them is sound; the quantified originals stay in place.
//
// The solvers do (1) themselves and try to do (2) by E-matching and MBQI; on the nested quantifiers of the
// representation invariants (attribute k, byte j of its value) they time out where the explicit instances close
// the goal in milliseconds. The variant is only consulted when the plain query was not decided.

var skCounter int

func isSkolem(name string) bool { return strings.HasPrefix(name, "sk!") }

func hasSymP(t *Term, pred func(string) bool) bool {
	found := false
	var rec func(t *Term)
	rec = func(t *Term) {
		if found {
			return
		}
		if t.Op == "sym" && pred(t.Name) {
			found = true
			return
		}
		for _, a := range t.Args {
			rec(a)
		}
	}
	rec(t)
	return found
}

func conjuncts(t *Term) []*Term {
	if t.Op == "and" {
		var out []*Term
		for _, a := range t.Args {
			out = append(out, conjuncts(a)...)
		}
		return out
	}
	return []*Term{t}
}

// skolemVariant returns nil when the obligation has neither a quantified/implicational goal nor quantified hypotheses.
func skolemVariant(ob *Obligation) *Obligation {
	goal := ob.Goal
	var extra []*Term
	var skolems []*Term
	for {
		switch {
		case goal.Op == "forall":
			m := map[string]*Term{}
			for _, b := range goal.Bound {
				skCounter++
				c := Sym("sk!"+strings.TrimSuffix(b.Name, "!")+"!"+itoa(skCounter), b.Sort)
				m[b.Name] = c
				if b.Sort == SInt {
					skolems = append(skolems, c)
				}
			}
			goal = subst(goal.Args[0], m)
			continue
		case goal.Op == "=>" && len(goal.Args) == 2:
			extra = append(extra, conjuncts(goal.Args[0])...)
			goal = goal.Args[1]
			continue
		}
		break
	}
	anyQ := false
	for _, h := range ob.Hyps {
		if isQuantified(h) {
			anyQ = true
			break
		}
	}
	for _, h := range extra {
		if isQuantified(h) {
			anyQ = true
		}
	}
	if !anyQ {
		return nil
	}
	// index terms, by label (the array family or spec-function argument they index), goal side first
	ix := &indexTerms{by: map[string][]*Term{}, seen: map[string]bool{}, skolems: skolems}
	ix.collect(goal, true)
	for _, h := range extra {
		ix.collect(h, true)
	}
	for _, h := range ob.Hyps {
		if !isQuantified(h) {
			ix.collect(h, false)
		}
	}
	cands := skolems
	if len(ix.by) == 0 && len(skolems) == 0 && len(extra) == 0 {
		return nil
	}
	alt := &Obligation{Name: ob.Name, Func: ob.Func, Kind: ob.Kind, Props: ob.Props, Pos: ob.Pos, Descr: ob.Descr, Tags: ob.Tags, Uses: ob.Uses}
	alt.Hyps = append(append([]*Term(nil), ob.Hyps...), extra...)
	alt.Goal = goal
	// modus ponens on what is literally there: with the goal's antecedents among the hypotheses, an implication
	// whose antecedent conjuncts are all hypotheses yields its consequent (to a fixed point)
	if len(extra) > 0 {
		hs := map[string]bool{}
		for _, h := range alt.Hyps {
			for _, c := range conjuncts(h) {
				hs[c.String()] = true
			}
		}
		for changed, rounds := true, 0; changed && rounds < 4; rounds++ {
			changed = false
			for _, h := range alt.Hyps {
				if h.Op != "=>" || len(h.Args) != 2 || hs[h.Args[1].String()] {
					continue
				}
				all := true
				for _, c := range conjuncts(h.Args[0]) {
					if !hs[c.String()] {
						all = false
						break
					}
				}
				if all {
					for _, c := range conjuncts(h.Args[1]) {
						if !hs[c.String()] {
							hs[c.String()] = true
							alt.Hyps = append(alt.Hyps, c)
							changed = true
						}
					}
					hs[h.Args[1].String()] = true
				}
			}
		}
	}
	if len(cands) > 0 || len(ix.by) > 0 {
		w := &weakener{cands: cands, ix: ix}
		var inst []*Term
		done := map[string]bool{}
		base := alt.Hyps
		// two rounds: the instances of the first round bring new index terms (an element of the old list, a position
		// in the old buffer), at which the hypotheses about the old state are instantiated in the second round
		for round := 0; round < 2; round++ {
			n0 := len(inst)
			for _, h := range base {
				if !isQuantified(h) {
					continue
				}
				w.budget = 60 // per hypothesis and round
				h2 := w.weaken(h, true)
				if h2 != h && !h2.IsTrue() {
					for _, c := range flatConjuncts(h2) {
						s := c.String()
						if !done[s] {
							done[s] = true
							inst = append(inst, c)
						}
					}
				}
			}
			if round == 0 {
				before := len(ix.seen)
				for _, c := range inst[n0:] {
					if !isQuantified(c) {
						ix.collectSk(c)
					}
				}
				if len(ix.seen) == before {
					break
				}
			}
		}
		alt.Hyps = append(alt.Hyps, inst...)
		alt.Hyps = append(alt.Hyps, cellRangeFacts(inst)...)
	}
	if !ob.noAnte {
		// implications whose antecedent is quantified (a callee's derived clause "old(Inv) ==> Inv", an invariant
		// guarded by another): proving the antecedent is a goal of its own, set up by prepareAntecedents
		groups := map[string]*anteGroup{}
		for _, h := range alt.Hyps {
			if h.Op == "=>" && len(h.Args) == 2 && isQuantified(h.Args[0]) {
				k := h.Args[0].String()
				g := groups[k]
				if g == nil {
					if len(alt.Ante) >= 8 {
						continue
					}
					g = &anteGroup{P: h.Args[0]}
					groups[k] = g
					alt.Ante = append(alt.Ante, g)
				}
				g.Qs = append(g.Qs, h.Args[1])
			}
		}
	}
	return alt
}

// anteGroup: hypotheses P => Q1, P => Q2, ... with a quantified P. If the other hypotheses entail P (checked
// conjunct by conjunct, each a skolemised query of its own), Q1, Q2, ... may be used outright:
// from H |- P and H, Q |- G follows H, P => Q |- G.
type anteGroup struct {
	P   *Term
	Qs  []*Term
	Obs []*Obligation // one per conjunct of P that is not literally a hypothesis
}

// prepareAntecedents builds the sub-obligations of alt's antecedent groups (axiom instances included).
func (p *Program) prepareAntecedents(alt *Obligation) {
	if alt == nil {
		return
	}
	hs := map[string]bool{}
	for _, h := range alt.Hyps {
		hs[h.String()] = true
	}
	built := map[string][]*Obligation{} // the groups share most of their antecedent conjuncts: one sub-goal per conjunct
	for _, g := range alt.Ante {
		for _, c := range conjuncts(g.P) {
			if hs[c.String()] {
				continue
			}
			subs, ok := built[c.String()]
			if !ok {
				for _, part := range splitGoal(c) {
					sub := &Obligation{Name: alt.Name + "/antecedent", Func: alt.Func, Kind: alt.Kind, Props: alt.Props, Tags: alt.Tags, Uses: alt.Uses,
						Hyps: append([]*Term(nil), alt.Hyps...), Goal: part, noAnte: true}
					if sv := skolemVariant(sub); sv != nil {
						sv.noAnte = true
						sub = sv
					}
					p.instantiate(sub)
					subs = append(subs, sub)
				}
				built[c.String()] = subs
			}
			g.Obs = append(g.Obs, subs...)
		}
	}
}

// flatConjuncts splits a formula into conjuncts, distributing implications: A => (B && (C => D)) gives
// A => B and (A && C) => D. Quantified antecedents then sit at the top of their implication, where the antecedent
// groups find them.
func flatConjuncts(t *Term) []*Term {
	var out []*Term
	var rec func(ante []*Term, t *Term)
	rec = func(ante []*Term, t *Term) {
		switch {
		case t.Op == "and":
			for _, a := range t.Args {
				rec(ante, a)
			}
		case t.Op == "=>" && len(t.Args) == 2:
			rec(append(append([]*Term(nil), ante...), conjuncts(t.Args[0])...), t.Args[1])
		default:
			if t.IsTrue() {
				return
			}
			out = append(out, Implies(And(ante...), t))
		}
	}
	rec(nil, t)
	return out
}

// cellRangeFacts: the type ranges (famRanges) of the heap cells read by the given ground formulas.
func cellRangeFacts(ts []*Term) []*Term {
	var out []*Term
	seen := map[string]bool{}
	var rec func(t *Term)
	rec = func(t *Term) {
		if t.Op == "forall" || t.Op == "exists" {
			return
		}
		if t.Op == "select" && len(t.Args) == 2 && t.Sort == SInt {
			if rg, ok := famRanges[arrayLabel(t.Args[0])]; ok && !seen[t.String()] && len(out) < 400 {
				seen[t.String()] = true
				if rg[0] != nil {
					out = append(out, Le(BigInt(rg[0]), t))
				}
				if rg[1] != nil {
					out = append(out, Le(t, BigInt(rg[1])))
				}
			}
		}
		for _, a := range t.Args {
			rec(a)
		}
	}
	for _, t := range ts {
		rec(t)
	}
	return out
}

func itoa(n int) string {
	if n == 0 {
		return "0"
	}
	var b []byte
	for n > 0 {
		b = append([]byte{byte('0' + n%10)}, b...)
		n /= 10
	}
	return string(b)
}

type weakener struct {
	cands  []*Term // the skolem constants
	ix     *indexTerms
	budget int // remaining number of instances
}

// indexTerms: the ground terms that index an array family or occupy an argument position of a spec function,
// keyed by that family / position. A bound variable used as  b + X  at some label is instantiated with  c - X  for the
// ground terms c of the same label (E-matching by label, done once, to a fixed depth).
type indexTerms struct {
	by      map[string][]*Term
	seen    map[string]bool
	skolems []*Term
	pairs   map[string][][2]*Term // family -> (region, index) of the ground reads select(select(F, r), i)
}

func (ix *indexTerms) addPair(t *Term) {
	// t = select(select(A, r), i)
	if t.Op != "select" || len(t.Args) != 2 || t.Args[0].Op != "select" || len(t.Args[0].Args) != 2 {
		return
	}
	r, i := t.Args[0].Args[1], t.Args[1]
	if r.Sort != SInt || i.Sort != SInt || len(r.String())+len(i.String()) > 2500 {
		return
	}
	label := arrayLabel(t.Args[0])
	if label == "" {
		return
	}
	k := "pair|" + label + "|" + r.String() + "|" + i.String()
	if ix.seen[k] {
		return
	}
	ix.seen[k] = true
	if ix.pairs == nil {
		ix.pairs = map[string][][2]*Term{}
	}
	if len(ix.pairs[label]) < 24 {
		ix.pairs[label] = append(ix.pairs[label], [2]*Term{r, i})
	}
}

// labelOf: the family an array term belongs to, whatever its version: strip stores, selects of the region level,
// the "hv." prefix of havocked versions and the version suffix.
func arrayLabel(arr *Term) string {
	region := strings.HasPrefix(elemSort(arr.Sort), "(Array") // indexing the region level of a two-level family
	for {
		switch {
		case arr.Op == "store":
			arr = arr.Args[0]
			continue
		case arr.Op == "select" && len(arr.Args) == 2:
			arr = arr.Args[0]
			continue
		case arr.Op == "ite" && len(arr.Args) == 3:
			arr = arr.Args[1]
			continue
		}
		break
	}
	if arr.Op != "sym" {
		return ""
	}
	n := strings.TrimPrefix(arr.Name, "hv.")
	if i := strings.IndexAny(n, "@!"); i >= 0 {
		n = n[:i]
	}
	if region {
		return n + "/region"
	}
	return n
}

func (ix *indexTerms) add(label string, t *Term, front bool) {
	if label == "" || t.Sort != SInt {
		return
	}
	if t.IsInt() && !strings.HasSuffix(label, "$a") {
		return // literal indices only for fixed-size array leaves (m.TransactionID[4]): elsewhere they are header offsets
	}
	k := label + "|" + t.String()
	if ix.seen[k] {
		return
	}
	ix.seen[k] = true
	if len(ix.by[label]) >= 8 {
		return
	}
	ix.by[label] = append(ix.by[label], t)
}

// collectSk: like collect, but only index terms built from skolem constants (second round), a few more per label.
func (ix *indexTerms) collectSk(t *Term) {
	var rec func(t *Term)
	rec = func(t *Term) {
		if t.Op == "forall" || t.Op == "exists" {
			return
		}
		add := func(label string, i *Term) {
			if label == "" || i.Sort != SInt || len(i.String()) > 2000 || (i.IsInt() && !strings.HasSuffix(label, "$a")) {
				return
			}
			k := label + "|" + i.String()
			if ix.seen[k] || len(ix.by[label]) >= 12 {
				return
			}
			ix.seen[k] = true
			ix.by[label] = append(ix.by[label], i)
		}
		if t.Op == "select" && len(t.Args) == 2 {
			add(arrayLabel(t.Args[0]), t.Args[1])
			ix.addPair(t)
		}
		if strings.HasPrefix(t.Op, "sf_") {
			for k, a := range t.Args {
				add(t.Op+"#"+itoa(k), a)
			}
		}
		for _, a := range t.Args {
			rec(a)
		}
	}
	rec(t)
}

func (ix *indexTerms) collect(t *Term, goalSide bool) {
	var rec func(t *Term, bound map[string]bool)
	rec = func(t *Term, bound map[string]bool) {
		switch t.Op {
		case "forall", "exists":
			nb := map[string]bool{}
			for k := range bound {
				nb[k] = true
			}
			for _, v := range t.Bound {
				nb[v.Name] = true
			}
			rec(t.Args[0], nb)
			return
		}
		free := func(i *Term) bool {
			return len(bound) == 0 || !hasSymP(i, func(n string) bool { return bound[n] })
		}
		if t.Op == "select" && len(t.Args) == 2 && t.Args[1].Sort == SInt && free(t.Args[1]) && len(t.Args[1].String()) <= 2000 {
			ix.add(arrayLabel(t.Args[0]), t.Args[1], goalSide)
			if free(t) {
				ix.addPair(t)
			}
		}
		if strings.HasPrefix(t.Op, "sf_") {
			for k, a := range t.Args {
				if a.Sort == SInt && free(a) && len(a.String()) <= 2000 {
					ix.add(t.Op+"#"+itoa(k), a, goalSide)
				}
			}
		}
		for _, a := range t.Args {
			rec(a, bound)
		}
	}
	rec(t, map[string]bool{})
}

// weaken replaces universal quantifiers in positive positions by the conjunction of their instances at the
// candidate terms (a consequence of the original formula). Everything else is left as it is.
func (w *weakener) weaken(t *Term, positive bool) *Term {
	switch t.Op {
	case "and", "or":
		args := make([]*Term, len(t.Args))
		changed := false
		for i, a := range t.Args {
			args[i] = w.weaken(a, positive)
			if args[i] != a {
				changed = true
			}
		}
		if !changed {
			return t
		}
		if t.Op == "and" {
			return And(args...)
		}
		return Or(args...)
	case "=>":
		if len(t.Args) == 2 {
			// the antecedent is kept (weakening it would strengthen the implication); only the consequent is weakened
			c := w.weaken(t.Args[1], positive)
			if c == t.Args[1] {
				return t
			}
			return Implies(t.Args[0], c)
		}
	case "forall":
		if !positive {
			return t
		}
		var ints []*Term
		for _, b := range t.Bound {
			if b.Sort == SInt {
				ints = append(ints, b)
			} else {
				return t // array-sorted bound variables: not instantiated here
			}
		}
		if len(ints) == 0 || len(ints) > 2 {
			return t
		}
		// candidate values per bound variable
		per := make([][]*Term, len(ints))
		for i, b := range ints {
			per[i] = w.valuesFor(t.Args[0], b)
		}
		var out []*Term
		emit := func(m map[string]*Term) {
			if w.budget <= 0 {
				return
			}
			w.budget--
			body := subst(t.Args[0], m)
			body = w.weaken(body, true)
			out = append(out, body)
		}
		if len(ints) == 1 {
			for _, v := range per[0] {
				emit(map[string]*Term{ints[0].Name: v})
			}
		} else {
			// a fact about every cell of a family, select(select(F, r), i + X): instantiate at the cells that are read
			for _, pr := range w.pairUses(t.Args[0], ints[0], ints[1]) {
				emit(map[string]*Term{ints[0].Name: pr[0], ints[1].Name: pr[1]})
			}
			for _, v0 := range per[0] {
				for _, v1 := range per[1] {
					emit(map[string]*Term{ints[0].Name: v0, ints[1].Name: v1})
				}
			}
		}
		if len(out) == 0 {
			return t
		}
		return And(out...)
	}
	return t
}

// pairUses: for a body that reads select(select(F, r), i + X) with bound r and i, the (r0, i0 - X) of the ground reads
// of the same family.
func (w *weakener) pairUses(body *Term, r, i *Term) [][2]*Term {
	var out [][2]*Term
	seen := map[string]bool{}
	isR := func(n string) bool { return n == r.Name }
	isI := func(n string) bool { return n == i.Name }
	var rec func(t *Term)
	rec = func(t *Term) {
		if t.Op == "forall" || t.Op == "exists" {
			return
		}
		if t.Op == "select" && len(t.Args) == 2 && t.Args[0].Op == "select" && len(t.Args[0].Args) == 2 {
			rt, it := t.Args[0].Args[1], t.Args[1]
			if rt.Op == "sym" && isR(rt.Name) && hasSymP(it, isI) && !hasSymP(it, isR) {
				x0 := subst(it, map[string]*Term{i.Name: Int(0)})
				x1 := subst(it, map[string]*Term{i.Name: Int(1)})
				if d := Sub(x1, x0); d.IsInt() && d.Val.IsInt64() && d.Val.Int64() == 1 && !hasSymP(x0, isI) {
					for _, pr := range w.ix.pairs[arrayLabel(t.Args[0])] {
						v := [2]*Term{pr[0], Sub(pr[1], x0)}
						k := v[0].String() + "|" + v[1].String()
						if !seen[k] && len(out) < 24 {
							seen[k] = true
							out = append(out, v)
						}
					}
				}
			}
		}
		for _, a := range t.Args {
			rec(a)
		}
	}
	rec(body)
	return out
}

// valuesFor: the values for bound variable b: for each use  b + X  (coefficient 1) at a label, c - X for the ground
// terms c of that label; the skolem constants themselves when b has no labelled use.
func (w *weakener) valuesFor(body *Term, b *Term) []*Term {
	seen := map[string]bool{}
	var vals []*Term
	add := func(v *Term) {
		s := v.String()
		if !seen[s] && len(vals) < 12 {
			seen[s] = true
			vals = append(vals, v)
		}
	}
	isB := func(n string) bool { return n == b.Name }
	type use struct {
		label string
		x     *Term
	}
	var uses []use
	useSeen := map[string]bool{}
	var rec func(t *Term, bound map[string]bool)
	rec = func(t *Term, bound map[string]bool) {
		switch t.Op {
		case "forall", "exists":
			nb := map[string]bool{}
			for k := range bound {
				nb[k] = true
			}
			for _, v := range t.Bound {
				nb[v.Name] = true
			}
			rec(t.Args[0], nb)
			return
		}
		note := func(label string, i *Term) {
			if label == "" || i.Sort != SInt || !hasSymP(i, isB) || hasSymP(i, func(n string) bool { return bound[n] }) {
				return
			}
			x0 := subst(i, map[string]*Term{b.Name: Int(0)})
			x1 := subst(i, map[string]*Term{b.Name: Int(1)})
			if d := Sub(x1, x0); !(d.IsInt() && d.Val.IsInt64() && d.Val.Int64() == 1) {
				return // not of the form b + X
			}
			if hasSymP(x0, isB) {
				return
			}
			k := label + "|" + x0.String()
			if !useSeen[k] {
				useSeen[k] = true
				uses = append(uses, use{label, x0})
			}
		}
		if t.Op == "select" && len(t.Args) == 2 {
			note(arrayLabel(t.Args[0]), t.Args[1])
		}
		if strings.HasPrefix(t.Op, "sf_") {
			for k, a := range t.Args {
				note(t.Op+"#"+itoa(k), a)
			}
		}
		for _, a := range t.Args {
			rec(a, bound)
		}
	}
	rec(body, map[string]bool{})
	// skolem-bearing candidates first
	for pass := 0; pass < 2; pass++ {
		for _, u := range uses {
			for _, c := range w.ix.by[u.label] {
				if hasSymP(c, isSkolem) != (pass == 0) {
					continue
				}
				add(Sub(c, u.x))
			}
		}
	}
	// the skolem constants themselves (relative indices: a bound k of one quantifier often stands for the k of the goal)
	for _, c := range w.cands {
		add(c)
	}
	return vals
}
