package main

import (
	"fmt"
	"go/ast"
	"go/constant"
	"go/token"
	"go/types"
	"math/big"
	"strconv"
	"strings"

	"golang.org/x/tools/go/ssa"
)

// LV is an lvalue reference produced while evaluating contract expressions.
type LV struct{ P Ptr }

type evalCtx struct {
	x           *Exec
	st          *State
	heap        *Heap
	old         *Heap
	loop        *Heap
	ghost       map[string]*Term
	oldGhost    map[string]*Term
	vars        map[string]Value
	names       map[string]Value
	pkg         *types.Package
	facts       bool
	where       string
	oldAlloc    *Term
	loopGhost   map[string]*Term
	bound       map[string]bool
	localsFirst bool
	params      map[string]bool
	iter        *Iter // map iterator of the enclosing range loop (for rangeidx)
	qdepth      int   // nesting depth of with(): temporary names of bound variables depend on it, not on a global counter
}

// boundName: the temporary name of a bound variable while its quantifier is being built (Forall / Exists then give
// it its canonical name). It depends only on the nesting depth, so that the same clause evaluated twice in the same
// state yields the same term, inner quantifiers included.
func (c *evalCtx) boundName(base string) string { return fmt.Sprintf("%s!b%d", base, c.qdepth) }

type evalErr struct{ msg string }

func (c *evalCtx) errf(format string, a ...interface{}) {
	panic(evalErr{c.where + ": " + fmt.Sprintf(format, a...)})
}

func (c *evalCtx) with(vars map[string]Value) *evalCtx {
	n := *c
	n.qdepth = c.qdepth + 1
	n.vars = map[string]Value{}
	n.bound = map[string]bool{}
	for k, v := range c.vars {
		n.vars[k] = v
	}
	for k := range c.bound {
		n.bound[k] = true
	}
	for k, v := range vars {
		n.vars[k] = v
		n.bound[k] = true
	}
	return &n
}

// ctxFor builds an evaluation context over the current state of a frame.
func (x *Exec) ctxFor(st *State, fr *Frame, old *Heap, extra map[string]Value) *evalCtx {
	c := &evalCtx{x: x, st: st, heap: st.heap, old: old, ghost: st.ghost, oldGhost: st.oldGh, vars: map[string]Value{}, facts: true}
	c.params = map[string]bool{}
	if fr != nil {
		for _, p := range fr.fn.Params {
			c.params[p.Name()] = true
		}
		c.names = fr.names
		if fr.fn.Pkg != nil {
			c.pkg = fr.fn.Pkg.Pkg
		}
		for i, p := range fr.fn.Params {
			if v, ok := fr.env[p]; ok {
				c.vars[p.Name()] = v
				if fr.fn == x.fn && x.fc != nil && i < len(x.fc.Params) {
					c.vars[x.fc.Params[i]] = v
				}
			}
		}
	}
	for k, v := range extra {
		c.vars[k] = v
	}
	return c
}

func (x *Exec) evalBool(st *State, cl *Clause, c *evalCtx) (res *Term) {
	c.where = cl.Line
	defer func() {
		if r := recover(); r != nil {
			// A clause that cannot be evaluated (a renamed local, a vanished field ...) proves nothing and assumes
			// nothing: as a goal it is dropped (the function is reported as not verified), as an assumption it is skipped.
			if ee, ok := r.(evalErr); ok {
				x.fail("contract error: %s", ee.msg)
				res = tErr
				return
			}
			if ue, ok := r.(error); ok {
				if _, ok := ue.(unsupportedErr); ok {
					x.fail("contract error at %s: %v", cl.Line, ue)
					res = tErr
					return
				}
			}
			panic(r)
		}
	}()
	v := c.rv(c.eval(cl.Expr))
	t := scT(v)
	if t.Sort != SBool {
		c.errf("clause is not boolean: %s", cl.Src)
	}
	return t
}

func (x *Exec) evalTerm(st *State, e ast.Expr, where string, c *evalCtx) (res *Term, ok bool) {
	c.where = where
	defer func() {
		if r := recover(); r != nil {
			if ee, isE := r.(evalErr); isE {
				x.fail("contract error: %s", ee.msg)
				res, ok = Int(0), false
				return
			}
			panic(r)
		}
	}()
	return scT(c.rv(c.eval(e))), true
}

// rv converts lvalues to values by loading from the context's heap.
func (c *evalCtx) rv(v Value) Value {
	if lv, ok := v.(LV); ok {
		if lv.P.Glob != nil {
			return c.x.p.globalValue(c.st, lv.P.Glob)
		}
		return c.st.load(c.heap, lv.P, c.facts)
	}
	return v
}

func (c *evalCtx) term(e ast.Expr) *Term {
	v := c.rv(c.eval(e))
	switch vv := v.(type) {
	case Sc:
		return vv.T
	case Fn:
		return vv.T
	}
	c.errf("scalar expected for %s, got %T", exprString(e), v)
	return nil
}

func exprString(e ast.Expr) string {
	return types.ExprString(e)
}

func (c *evalCtx) eval(e ast.Expr) Value {
	switch n := e.(type) {
	case *ast.ParenExpr:
		return c.eval(n.X)
	case *ast.BasicLit:
		switch n.Kind {
		case token.INT:
			bi, ok := new(big.Int).SetString(n.Value, 0)
			if !ok {
				c.errf("bad int %s", n.Value)
			}
			return Sc{BigInt(bi)}
		case token.STRING:
			s, _ := strconv.Unquote(n.Value)
			return Sc{Int(c.x.p.strID(s))}
		case token.CHAR:
			s, _ := strconv.Unquote(n.Value)
			return Sc{Int(int64([]rune(s)[0]))}
		}
	case *ast.Ident:
		return c.ident(n.Name)
	case *ast.SelectorExpr:
		if id, ok := n.X.(*ast.Ident); ok {
			if _, bound := c.lookupName(id.Name); !bound {
				if v, ok := c.qualified(id.Name, n.Sel.Name); ok {
					return v
				}
			}
		}
		return c.selectField(c.eval(n.X), n.Sel.Name)
	case *ast.StarExpr:
		v := c.rv(c.eval(n.X))
		if p, ok := v.(Ptr); ok {
			return LV{p}
		}
		c.errf("deref of non-pointer")
	case *ast.IndexExpr:
		base := c.rv(c.eval(n.X))
		if gm, ok := base.(GMap); ok && gm.Kind == "gmapk" {
			k := c.rv(c.eval(n.Index))
			return Sc{Select(gm.T, keyTerm(k))}
		}
		if mv, ok := base.(MapV); ok {
			return c.x.mapRead(c.st, c.heap, mv, c.rv(c.eval(n.Index)))
		}
		idx := c.term(n.Index)
		switch b := base.(type) {
		case Sl:
			if b.Arr != nil {
				return Sc{Select(b.Arr, Add(b.O, idx))}
			}
			if b.Loc != nil {
				np := *b.Loc
				np.Path = append(append([]pathElem(nil), np.Path...), pathElem{Index: Add(b.O, idx)})
				np.Elem = b.Elem
				return LV{np}
			}
			return LV{Ptr{R: b.R, I: Add(b.O, idx), Root: b.Elem, Elem: b.Elem}}
		case Ar:
			if strings.HasPrefix(elemSort(b.A.Sort), "(Array") {
				return Ar{A: Select(b.A, idx), N: 12}
			}
			return Sc{Select(b.A, idx)}
		case MapV:
			return c.x.mapRead(c.st, c.heap, b, c.rv(c.eval(n.Index)))
		case GMap:
			switch b.Kind {
			case "gmap":
				return Sc{Select(b.T, idx)}
			case "gmapa":
				return Ar{A: Select(b.T, idx), N: 1 << 30}
			}
		}
		c.errf("index on %T", base)
	case *ast.SliceExpr:
		base := c.rv(c.eval(n.X))
		b, ok := base.(Sl)
		if !ok {
			if av, isAr := base.(Ar); isAr {
				b = Sl{Arr: av.A, O: Int(0), L: Int(av.N), C: Int(av.N), Elem: av.Elem}
			} else {
				c.errf("slice expression on %T", base)
			}
		}
		lo := Int(0)
		if n.Low != nil {
			lo = c.term(n.Low)
		}
		hi := b.L
		if n.High != nil {
			hi = c.term(n.High)
		}
		nb := b
		nb.O, nb.L, nb.C = Add(b.O, lo), Sub(hi, lo), Sub(b.C, lo)
		return nb
	case *ast.UnaryExpr:
		switch n.Op {
		case token.NOT:
			return Sc{Not(c.term(n.X))}
		case token.SUB:
			return Sc{Neg(c.term(n.X))}
		case token.AND:
			v := c.eval(n.X)
			if lv, ok := v.(LV); ok {
				return lv.P
			}
		}
	case *ast.BinaryExpr:
		return c.binary(n)
	case *ast.CallExpr:
		return c.callExpr(n)
	}
	c.errf("unsupported contract expression %s (%T)", exprString(e), e)
	return nil
}

func (c *evalCtx) lookupName(name string) (Value, bool) {
	if c.bound[name] {
		return c.vars[name], true // parameters of defines, quantified variables: innermost binding wins
	}
	if c.localsFirst && c.names != nil {
		// proof steps (assert/use) see the current value of a reassigned parameter; p_<name> is the entry value
		if v, ok := c.names[name]; ok {
			return v, true
		}
	}
	if strings.HasPrefix(name, "p_") {
		if v, ok := c.vars[name[2:]]; ok && c.params[name[2:]] {
			return v, true
		}
	}
	if v, ok := c.vars[name]; ok {
		return v, true
	}
	if c.names != nil {
		if v, ok := c.names[name]; ok {
			return v, true
		}
		if v, ok := c.names["&"+name]; ok {
			if p, isP := v.(Ptr); isP {
				return LV{p}, true
			}
		}
	}
	return nil, false
}

func (c *evalCtx) ident(name string) Value {
	switch name {
	case "true":
		return Sc{tTrue}
	case "false":
		return Sc{tFalse}
	case "nil":
		return nilLit{}
	}
	if v, ok := c.lookupName(name); ok {
		return v
	}
	if c.pkg != nil {
		if obj := c.pkg.Scope().Lookup(name); obj != nil {
			return c.objValue(obj)
		}
	}
	c.errf("unresolved identifier %q", name)
	return nil
}

type nilLit struct{}

func (c *evalCtx) objValue(obj types.Object) Value {
	switch o := obj.(type) {
	case *types.Const:
		switch o.Val().Kind() {
		case constant.Int:
			bi, _ := new(big.Int).SetString(o.Val().ExactString(), 10)
			return Sc{BigInt(bi)}
		case constant.Bool:
			return Sc{Bool(constant.BoolVal(o.Val()))}
		case constant.String:
			return Sc{Int(c.x.p.strID(constant.StringVal(o.Val())))}
		}
	case *types.Var:
		if pk := c.x.p.prog.Package(o.Pkg()); pk != nil {
			if g, ok := pk.Members[o.Name()].(*ssa.Global); ok {
				return c.x.p.globalValue(c.st, g)
			}
		}
	}
	c.errf("cannot use object %s in a contract", obj)
	return nil
}

func (c *evalCtx) qualified(pkgName, member string) (Value, bool) {
	for _, pk := range c.x.p.prog.AllPackages() {
		if pk.Pkg.Name() == pkgName {
			if obj := pk.Pkg.Scope().Lookup(member); obj != nil {
				return c.objValue(obj), true
			}
		}
	}
	return nil, false
}

func fieldIndex(t types.Type, name string) (int, types.Type, bool) {
	st, ok := t.Underlying().(*types.Struct)
	if !ok {
		return 0, nil, false
	}
	for i := 0; i < st.NumFields(); i++ {
		if st.Field(i).Name() == name {
			return i, st.Field(i).Type(), true
		}
	}
	return 0, nil, false
}

func (c *evalCtx) selectField(v Value, name string) Value {
	switch b := v.(type) {
	case LV:
		// field of a struct lvalue, or auto-deref of a pointer lvalue
		if _, isPtr := b.P.Elem.Underlying().(*types.Pointer); isPtr {
			return c.selectField(c.rv(b), name)
		}
		i, _, ok := fieldIndex(b.P.Elem, name)
		if !ok {
			c.errf("no field %s in %s", name, b.P.Elem)
		}
		return LV{fieldPtr(b.P, i)}
	case Ptr:
		i, _, ok := fieldIndex(b.Elem, name)
		if !ok {
			c.errf("no field %s in %s", name, b.Elem)
		}
		return LV{fieldPtr(b, i)}
	case St:
		i, _, ok := fieldIndex(b.Typ, name)
		if !ok {
			c.errf("no field %s in %s", name, b.Typ)
		}
		return b.F[i]
	case If:
		// an interface value whose dynamic type is a known pointer type: fields of the pointee
		if pv, ok := b.DynVal.(Ptr); ok {
			return c.selectField(pv, name)
		}
	}
	c.errf("field %s of %T", name, v)
	return nil
}

func (c *evalCtx) binary(n *ast.BinaryExpr) Value {
	switch n.Op {
	case token.LAND:
		return Sc{And(c.term(n.X), c.term(n.Y))}
	case token.LOR:
		return Sc{Or(c.term(n.X), c.term(n.Y))}
	case token.EQL, token.NEQ:
		a := c.rv(c.eval(n.X))
		b := c.rv(c.eval(n.Y))
		var eq *Term
		nilOf := func(v Value, e ast.Expr) *Term {
			switch v.(type) {
			case Ptr, Sl, If, Fn, Sc, MapV:
				return isNilTerm(v)
			}
			c.errf("comparison with nil of %s, which is a %T value", exprString(e), v)
			return nil
		}
		if _, ok := b.(nilLit); ok {
			eq = nilOf(a, n.X)
		} else if _, ok := a.(nilLit); ok {
			eq = nilOf(b, n.Y)
		} else {
			eq = c.valEq(a, b)
		}
		if n.Op == token.NEQ {
			eq = Not(eq)
		}
		return Sc{eq}
	}
	a, b := c.term(n.X), c.term(n.Y)
	if a.IsBV() || b.IsBV() {
		return Sc{bvContractOp(c, n.Op, a, b)}
	}
	switch n.Op {
	case token.ADD:
		return Sc{Add(a, b)}
	case token.SUB:
		return Sc{Sub(a, b)}
	case token.MUL:
		return Sc{Mul(a, b)}
	case token.QUO:
		return Sc{Div(a, b)}
	case token.REM:
		return Sc{Mod(a, b)}
	case token.LSS:
		return Sc{Lt(a, b)}
	case token.LEQ:
		return Sc{Le(a, b)}
	case token.GTR:
		return Sc{Gt(a, b)}
	case token.GEQ:
		return Sc{Ge(a, b)}
	case token.AND:
		if m, ok := lowMask(b); ok {
			return Sc{Mod(a, pow2(m))}
		}
		if b.IsInt() {
			return Sc{maskBits(a, b.Val)}
		}
	case token.SHL:
		if b.IsInt() {
			return Sc{Mul(a, pow2(b.Val.Int64()))}
		}
	case token.SHR:
		if b.IsInt() {
			return Sc{Div(a, pow2(b.Val.Int64()))}
		}
	}
	c.errf("unsupported operator %s", n.Op)
	return nil
}

func (c *evalCtx) valEq(a, b Value) *Term {
	switch av := a.(type) {
	case Sc:
		if av.T.IsBV() || scT(b).IsBV() {
			w := bvOpWidth(av.T, scT(b))
			return Eq(toBVw(c, av.T, w), toBVw(c, scT(b), w))
		}
		return Eq(av.T, scT(b))
	case Fn:
		return Eq(av.T, scT(b))
	case If:
		bv, ok := b.(If)
		if !ok {
			c.errf("comparing interface with %T", b)
		}
		return And(Eq(av.Tag, bv.Tag), Eq(av.Pl, bv.Pl))
	case Ptr:
		bv := b.(Ptr)
		return And(Eq(av.R, bv.R), Eq(av.I, bv.I))
	case Ar:
		bv := b.(Ar)
		// byte-array values are kept canonical (see DESIGN: fixed arrays as SMT arrays), so Go == is SMT =
		return Eq(av.A, bv.A)
	case Sl:
		bv := b.(Sl)
		return And(Eq(av.R, bv.R), Eq(av.O, bv.O), Eq(av.L, bv.L), Eq(av.C, bv.C))
	case St:
		bv := b.(St)
		var cs []*Term
		for k := range av.F {
			cs = append(cs, c.valEq(av.F[k], bv.F[k]))
		}
		return And(cs...)
	case MapV:
		return Eq(av.Ref, b.(MapV).Ref)
	}
	c.errf("cannot compare %T", a)
	return nil
}

func (c *evalCtx) inHeap(h *Heap, gh map[string]*Term) *evalCtx {
	n := *c
	n.heap = h
	if gh != nil {
		n.ghost = gh
	}
	n.facts = false
	return &n
}

func (c *evalCtx) callExpr(n *ast.CallExpr) Value {
	fname := ""
	switch f := n.Fun.(type) {
	case *ast.Ident:
		fname = f.Name
	default:
		c.errf("unsupported call %s", exprString(n))
	}
	arg := func(i int) ast.Expr {
		if i >= len(n.Args) {
			c.errf("%s: missing argument %d", fname, i)
		}
		return n.Args[i]
	}
	switch fname {
	case "len":
		switch v := c.rv(c.eval(arg(0))).(type) {
		case Sl:
			return Sc{v.L}
		case Ar:
			return Sc{Int(v.N)}
		case Sc:
			declareFun("strlen", "(declare-fun strlen (Int) Int)")
			return Sc{App("strlen", SInt, v.T)}
		case MapV:
			return Sc{c.x.mapLen(c.heap, v)}
		}
		c.errf("len of non-slice")
	case "cap":
		return Sc{c.rv(c.eval(arg(0))).(Sl).C}
	case "region":
		switch v := c.rv(c.eval(arg(0))).(type) {
		case Sl:
			return Sc{v.R}
		case Ptr:
			return Sc{v.R}
		case MapV:
			return Sc{v.Ref}
		}
		c.errf("region of non-slice")
	case "off":
		return Sc{c.rv(c.eval(arg(0))).(Sl).O}
	case "old":
		if c.old == nil {
			c.errf("old() not available here")
		}
		return c.inHeap(c.old, c.oldGhost).rvDeep(arg(0))
	case "loopold":
		if c.loop == nil {
			c.errf("loopold() outside a loop invariant")
		}
		return c.inHeap(c.loop, c.loopGhost).rvDeep(arg(0))
	case "implies":
		return Sc{Implies(c.term(arg(0)), c.term(arg(1)))}
	case "iff":
		return Sc{Eq(c.term(arg(0)), c.term(arg(1)))}
	case "ite":
		cond := c.term(arg(0))
		return Sc{Ite(cond, c.term(arg(1)), c.term(arg(2)))}
	case "forall", "exists", "forallv":
		allVariants := fname == "forallv" // forallv: conjoin the equivalent variants for every array offset (more triggers)
		if allVariants {
			fname = "forall"
		}
		id, ok := arg(0).(*ast.Ident)
		if !ok {
			c.errf("%s: first argument must be a variable name", fname)
		}
		lo := c.term(arg(1))
		var hi *Term
		if hid, isID := arg(2).(*ast.Ident); isID && hid.Name == "inf" {
			hi = nil // no upper bound
		} else {
			hi = c.term(arg(2))
		}
		ltHi := func(k *Term) *Term {
			if hi == nil {
				return tTrue
			}
			return Lt(k, hi)
		}
		bv := Sym(c.boundName(id.Name), SInt)
		cc := c.with(map[string]Value{id.Name: Sc{bv}})
		cc.facts = false
		body := cc.term(arg(3))
		var pats []*Term
		for _, pe := range n.Args[4:] {
			pv := cc.rv(cc.eval(pe))
			pats = append(pats, scT(pv))
		}
		rng := And(Le(lo, bv), ltHi(bv))
		// Quantify over the absolute array index (p = X + k) instead of the relative one, so that
		// array reads have the bare bound variable as index and E-matching sees every ground read.
		// When the body reads several arrays at different offsets, the (equivalent) variants for each
		// offset are conjoined, giving the solver one trigger per array.
		shifts := indexShifts(body, bv.Name)
		if !allVariants {
			// default: the first offset read decides (byte-level frames are all written new-state-first)
			var first []*Term
			for _, sh := range shifts {
				if !(sh.IsInt() && sh.Val.Sign() == 0) {
					first = []*Term{sh}
					break
				}
			}
			shifts = first
		}
		if len(pats) == 0 && len(shifts) > 0 && !(len(shifts) == 1 && shifts[0].IsInt() && shifts[0].Val.Sign() == 0) {
			var variants []*Term
			for _, shift := range shifts {
				if shift.IsInt() && shift.Val.Sign() == 0 {
					if fname == "forall" {
						variants = append(variants, Forall([]*Term{bv}, Implies(rng, body)))
					} else {
						variants = append(variants, Exists([]*Term{bv}, And(rng, body)))
					}
					continue
				}
				pv := Sym(c.boundName(id.Name+".abs"), SInt)
				k := Sub(pv, shift)
				cc2 := c.with(map[string]Value{id.Name: Sc{k}})
				cc2.facts = false
				b2 := cc2.term(arg(3))
				r2 := And(Le(lo, k), ltHi(k))
				if fname == "forall" {
					variants = append(variants, Forall([]*Term{pv}, Implies(r2, b2)))
				} else {
					variants = append(variants, Exists([]*Term{pv}, And(r2, b2)))
				}
			}
			if fname == "forall" {
				return Sc{And(variants...)}
			}
			return Sc{variants[0]}
		}
		if fname == "forall" {
			return Sc{Forall([]*Term{bv}, Implies(rng, body), pats...)}
		}
		return Sc{Exists([]*Term{bv}, And(rng, body))}
	case "rangeidx":
		// rangeidx(k): position of key k in the enumeration of the enclosing range-over-map loop
		if c.iter == nil {
			c.errf("rangeidx() outside a range-over-map loop")
		}
		return Sc{App("|"+c.iter.Idx+"|", SInt, keyTerm(c.rv(c.eval(arg(0)))))}
	case "forallkey":
		// forallkey(k, body): k ranges over all values of a 12-byte array type (transaction ids)
		id := arg(0).(*ast.Ident)
		bv := Sym(c.boundName(id.Name), SArr)
		cc := c.with(map[string]Value{id.Name: Ar{A: bv, N: 12}})
		cc.facts = false
		body := cc.term(arg(1))
		var pats []*Term
		for _, pe := range n.Args[2:] {
			pats = append(pats, scT(cc.rv(cc.eval(pe))))
		}
		return Sc{Forall([]*Term{bv}, body, pats...)}
	case "forallint":
		id := arg(0).(*ast.Ident)
		bv := Sym(c.boundName(id.Name), SInt)
		cc := c.with(map[string]Value{id.Name: Sc{bv}})
		cc.facts = false
		body := cc.term(arg(1))
		var pats []*Term
		for _, pe := range n.Args[2:] {
			pats = append(pats, scT(cc.rv(cc.eval(pe))))
		}
		return Sc{Forall([]*Term{bv}, body, pats...)}
	case "fieldslice":
		// fieldslice(a, F): the sequence a[0].F, a[1].F, ... of a scalar field of a slice of structs, as an abstract int sequence
		a, ok := c.rv(c.eval(arg(0))).(Sl)
		if !ok {
			c.errf("fieldslice of non-slice")
		}
		fname := arg(1).(*ast.Ident).Name
		_, ft, ok := fieldIndex(a.Elem, fname)
		if !ok {
			c.errf("fieldslice: no field %s", fname)
		}
		srt, _, isSc := scalarSort(ft)
		if !isSc || srt != SInt {
			c.errf("fieldslice: field %s is not an integer scalar", fname)
		}
		fam := c.heap.family(familyName(a.Elem, fname), SInt)
		return Sl{Arr: Select(fam, a.R), O: a.O, L: a.L, C: a.L, R: Int(-2), Elem: ft}
	case "haskey":
		mv, ok := c.rv(c.eval(arg(0))).(MapV)
		if !ok {
			c.errf("haskey: not a map")
		}
		return Sc{c.x.mapHas(c.heap, mv, c.rv(c.eval(arg(1))))}
	case "setbe16":
		// setbe16(s, i, v): the byte sequence s with bytes i, i+1 replaced by the big-endian encoding of v
		sl, ok := c.rv(c.eval(arg(0))).(Sl)
		if !ok {
			c.errf("setbe16 of non-slice")
		}
		i, v := c.term(arg(1)), c.term(arg(2))
		arr := c.x.contentArray(c.st, c.heap, sl)
		arr = Store(Store(arr, Add(sl.O, i), Div(Mod(v, Int(65536)), Int(256))), Add(Add(sl.O, i), Int(1)), Mod(v, Int(256)))
		return Sl{Arr: arr, O: sl.O, L: sl.L, C: sl.L, R: Int(-2), Elem: sl.Elem}
	case "lenslice":
		// lenslice(a, F): the sequence len(a[0].F), len(a[1].F), ... for a slice-typed field F of a slice of structs
		a, ok := c.rv(c.eval(arg(0))).(Sl)
		if !ok {
			c.errf("lenslice of non-slice")
		}
		fname := arg(1).(*ast.Ident).Name
		_, ft, ok := fieldIndex(a.Elem, fname)
		if !ok {
			c.errf("lenslice: no field %s", fname)
		}
		if _, isSl := ft.Underlying().(*types.Slice); !isSl {
			c.errf("lenslice: field %s is not a slice", fname)
		}
		fam := c.heap.family(familyName(a.Elem, fname+"$l"), SInt)
		return Sl{Arr: Select(fam, a.R), O: a.O, L: a.L, C: a.L, R: Int(-2), Elem: types.Typ[types.Int]}
	case "sameslice":
		a, b := c.rv(c.eval(arg(0))).(Sl), c.rv(c.eval(arg(1))).(Sl)
		return Sc{And(Eq(a.R, b.R), Eq(a.O, b.O), Eq(a.L, b.L), Eq(a.C, b.C))}
	case "bytes_eq":
		a, b := c.rv(c.eval(arg(0))).(Sl), c.rv(c.eval(arg(1))).(Sl)
		return Sc{And(Eq(a.L, b.L), c.contentEq(a, c, b, c, a.L))}
	case "bytes_eq_old":
		// bytes_eq_old(a, b): a (current state) has the length and bytes that b had in the old state
		if c.old == nil {
			c.errf("bytes_eq_old() needs an old state")
		}
		oc := c.inHeap(c.old, c.oldGhost)
		a, b := c.rv(c.eval(arg(0))).(Sl), oc.rvDeep(arg(1)).(Sl)
		return Sc{And(Eq(a.L, b.L), c.contentEq(a, c, b, oc, a.L))}
	case "unchanged":
		if c.old == nil {
			c.errf("unchanged() needs an old state")
		}
		oc := c.inHeap(c.old, c.oldGhost)
		nv := c.rv(c.eval(arg(0)))
		ov := oc.rvDeep(arg(0))
		if ns, ok := nv.(Sl); ok {
			os := ov.(Sl)
			return Sc{And(Eq(ns.R, os.R), Eq(ns.O, os.O), Eq(ns.L, os.L), Eq(ns.C, os.C), c.contentEq(ns, c, os, oc, ns.L))}
		}
		return Sc{c.valEq(nv, ov)}
	case "fresh":
		v := c.rv(c.eval(arg(0)))
		var r *Term
		switch vv := v.(type) {
		case Sl:
			r = vv.R
		case Ptr:
			r = vv.R
		case If:
			r = vv.Pl
		case MapV:
			r = vv.Ref
		default:
			c.errf("fresh of %T", v)
		}
		if c.old == nil {
			c.errf("fresh() needs an old state")
		}
		return Sc{And(Not(Select(c.old.alloc, r)), Gt(r, Int(0)))}
	case "loopfresh":
		v := c.rv(c.eval(arg(0)))
		var r *Term
		switch vv := v.(type) {
		case Sl:
			r = vv.R
		case Ptr:
			r = vv.R
		default:
			c.errf("loopfresh of %T", v)
		}
		if c.loop == nil {
			c.errf("loopfresh() outside a loop invariant")
		}
		return Sc{And(Not(Select(c.loop.alloc, r)), Gt(r, Int(0)))}
	case "allocated":
		v := c.rv(c.eval(arg(0)))
		switch vv := v.(type) {
		case Sl:
			return Sc{Select(c.heap.alloc, vv.R)}
		case Ptr:
			return Sc{Select(c.heap.alloc, vv.R)}
		}
	case "isview":
		return Sc{tTrue}
	case "min":
		a, b := c.term(arg(0)), c.term(arg(1))
		return Sc{Ite(Le(a, b), a, b)}
	case "max":
		a, b := c.term(arg(0)), c.term(arg(1))
		return Sc{Ite(Ge(a, b), a, b)}
	case "int", "int64", "int32", "uint", "uint64":
		return Sc{c.term(arg(0))}
	case "uint32":
		return Sc{WrapU(c.term(arg(0)), 32)}
	case "uint16":
		return Sc{WrapU(c.term(arg(0)), 16)}
	case "uint8", "byte":
		return Sc{WrapU(c.term(arg(0)), 8)}
	case "xor8", "xor16", "xor32", "xor64":
		bits := 8
		fmt.Sscanf(fname, "xor%d", &bits)
		declareXor(bits)
		a, b := c.term(arg(0)), c.term(arg(1))
		if a.IsBV() || b.IsBV() {
			// bit-vector mode (lemma proofs): the real exclusive-or on the low <bits> bits, zero-extended to 32/64
			w := 32
			if bits == 64 {
				w = 64
			}
			ea, eb := toBVw(c, a, w), toBVw(c, b, w)
			r := App("bvxor", bvSort(w), ea, eb)
			if bits < w {
				r = bvResize(App(fmt.Sprintf("(_ extract %d 0)", bits-1), bvSort(bits), r), bits, w, true)
			}
			if w == 64 {
				return Sc{r}
			}
			return Sc{r}
		}
		if a.IsInt() && b.IsInt() {
			return Sc{BigInt(new(big.Int).Xor(a.Val, b.Val))}
		}
		return Sc{App(fname, SInt, a, b)}
	case "ghost":
		id := arg(0).(*ast.Ident)
		return Sc{c.ghostVar(id.Name)}
	case "gmap", "gmapa", "gmapk":
		// ghost maps: gmap(name)[k] : Int ; gmapa(name)[k] : byte array ; gmapk(name)[arraykey] : Int
		id := arg(0).(*ast.Ident)
		return GMap{Kind: fname, Name: id.Name, T: ghostGet(c.ghost, id.Name, ghostSort(fname))}
	case "errtag":
		// errtag(e): dynamic type tag of an interface value
		return Sc{c.rv(c.eval(arg(0))).(If).Tag}
	case "strdata":
		// strdata(s): the bytes of string s as a byte sequence
		sv := c.term(arg(0))
		declareFun("strlen", "(declare-fun strlen (Int) Int)")
		declareFun("strbytes", "(declare-fun strbytes (Int) (Array Int Int))")
		return Sl{Arr: App("strbytes", SArr, sv), O: Int(0), L: App("strlen", SInt, sv), C: App("strlen", SInt, sv), R: Int(-2), Elem: types.Typ[types.Uint8]}
	case "strcat":
		declareFun("strcat", "(declare-fun strcat (Int Int) Int)")
		return Sc{Strcat(c.term(arg(0)), c.term(arg(1)))}
	case "asptr":
		// asptr(x, "*T"): the pointer held by interface value x, viewed as *T (the caller states the dynamic type separately)
		iv, ok := c.rv(c.eval(arg(0))).(If)
		if !ok {
			c.errf("asptr: not an interface value")
		}
		name, _ := strconv.Unquote(arg(1).(*ast.BasicLit).Value)
		t := c.x.p.lookupType(name)
		if t == nil {
			c.errf("asptr: unknown type %s", name)
		}
		pt := t.Underlying().(*types.Pointer)
		return Ptr{R: iv.Pl, I: Int(0), Root: pt.Elem(), Elem: pt.Elem()}
	case "implements":
		// implements(x, "pkg.Iface"): the dynamic type of interface value x implements the named interface
		iv, ok := c.rv(c.eval(arg(0))).(If)
		if !ok {
			c.errf("implements: not an interface value")
		}
		name, _ := strconv.Unquote(arg(1).(*ast.BasicLit).Value)
		declareFun("ifaceimpl", "(declare-fun ifaceimpl (Int Int) Bool)")
		return Sc{And(Not(Eq(iv.Tag, Int(0))), App("ifaceimpl", SBool, Int(c.x.p.strID("iface:"+name)), iv.Tag))}
	case "errval":
		return Sc{c.rv(c.eval(arg(0))).(If).Pl}
	case "typeid":
		s, _ := strconv.Unquote(arg(0).(*ast.BasicLit).Value)
		return Sc{Int(c.x.p.typeIDByName(s))}
	}
	if v, ok := c.ghostCall(fname, n); ok {
		return v
	}
	if d := c.x.p.define(fname); d != nil {
		if len(d.Params) != len(n.Args) {
			c.errf("%s: expected %d arguments", fname, len(d.Params))
		}
		vars := map[string]Value{}
		for i, p := range d.Params {
			// call by value: arguments are evaluated (and loaded) in the caller's state; old()/loopold()
			// inside the body then only affect what the body itself reads through them
			vars[p] = c.rv(c.eval(n.Args[i]))
		}
		cc := c.with(vars)
		return cc.eval(d.Body)
	}
	if sf, ok := c.x.p.spec.Specs[fname]; ok {
		return c.specApp(sf, n)
	}
	c.errf("unknown contract function %s", fname)
	return nil
}

// rvDeep evaluates e entirely in this context's heap.
func (c *evalCtx) rvDeep(e ast.Expr) Value { return c.rv(c.eval(e)) }

func (c *evalCtx) ghostVar(name string) *Term {
	return ghostGet(c.ghost, name, SInt)
}

// ghostGet: current value of a ghost variable (entry value: a rigid symbol).
func ghostGet(g map[string]*Term, name, sort string) *Term {
	if t, ok := g[name]; ok {
		return t
	}
	return Sym("ghost."+name+"@0", sort)
}

func ghostSort(kind string) string {
	switch kind {
	case "gmap":
		return SArr
	case "gmapa":
		return arrSort(SInt, SArr)
	case "gmapk": // keyed by a byte-array value (e.g. a transaction id)
		return arrSort(SArr, SInt)
	}
	return SInt
}

// contentEq: forall i in [0,n): a[i] == b[i] (scalar elements), each evaluated in its own heap.
func (c *evalCtx) contentEq(a Sl, ca *evalCtx, b Sl, cb *evalCtx, n *Term) *Term {
	aa := ca.x.contentArray(ca.st, ca.heap, a)
	ba := cb.x.contentArray(cb.st, cb.heap, b)
	if same(aa, ba) && same(a.O, b.O) {
		return tTrue
	}
	if n.IsInt() && n.Val.IsInt64() && n.Val.Int64() <= 32 {
		var cs []*Term
		for k := int64(0); k < n.Val.Int64(); k++ {
			cs = append(cs, Eq(Select(aa, Add(a.O, Int(k))), Select(ba, Add(b.O, Int(k)))))
		}
		return And(cs...)
	}
	// quantify over the absolute index into a's backing array (see the shift in forall())
	pv := Sym(c.boundName("i.abs"), SInt)
	l := Select(aa, pv)
	r := Select(ba, Add(b.O, Sub(pv, a.O)))
	return Forall([]*Term{pv}, Implies(And(Le(a.O, pv), Lt(pv, Add(a.O, n))), Eq(l, r)))
}

// ---- spec functions ----

func specSorts(ps []specParam) []string {
	var out []string
	for _, p := range ps {
		switch p.Typ {
		case "bytes":
			out = append(out, SArr, SInt)
		case "bytesn":
			out = append(out, SArr, SInt, SInt)
		case "int":
			out = append(out, SInt)
		case "bool":
			out = append(out, SBool)
		case "arr":
			out = append(out, SArr)
		default:
			panic("spec param type " + p.Typ)
		}
	}
	return out
}

func specRet(r string) string {
	switch r {
	case "bool":
		return SBool
	case "arr":
		return SArr
	}
	return SInt
}

func (c *evalCtx) specApp(sf *SpecFun, n *ast.CallExpr) Value {
	if len(n.Args) != len(sf.Params) {
		c.errf("%s: expected %d arguments", sf.Name, len(sf.Params))
	}
	var args []*Term
	for i, p := range sf.Params {
		switch p.Typ {
		case "bytes", "bytesn":
			v := c.rv(c.eval(n.Args[i]))
			var sl Sl
			switch vv := v.(type) {
			case Sl:
				sl = vv
			case Ar:
				sl = Sl{Arr: vv.A, O: Int(0), L: Int(vv.N), C: Int(vv.N), Elem: vv.Elem}
			default:
				c.errf("%s: argument %d must be a byte slice, got %T", sf.Name, i, v)
			}
			args = append(args, c.x.contentArray(c.st, c.heap, sl), sl.O)
			if p.Typ == "bytesn" {
				args = append(args, sl.L)
			}
		case "arr":
			v := c.rv(c.eval(n.Args[i]))
			args = append(args, v.(Ar).A)
		default:
			args = append(args, c.term(n.Args[i]))
		}
	}
	name := "sf_" + sf.Name
	declareFun(name, fmt.Sprintf("(declare-fun %s (%s) %s)", name, strings.Join(specSorts(sf.Params), " "), specRet(sf.Ret)))
	t := App(name, specRet(sf.Ret), args...)
	if sf.Ret == "arr" {
		return Ar{A: t, N: 1 << 30}
	}
	return Sc{t}
}

// ---- bit-vector mode: contract arithmetic is 32-bit modular on zero-extended operands ----

// bvArithWidth: contract arithmetic width in bit-vector mode (64 when a 64-bit operand is involved).
func toBVw(c *evalCtx, t *Term, w int) *Term {
	switch {
	case t.IsInt():
		return bvConst(t.Val, w)
	case t.IsBV():
		return bvResize(t, bvWidth(t.Sort), w, true)
	}
	c.errf("cannot use %s in bit-vector arithmetic", t)
	return nil
}

func toBV32(c *evalCtx, t *Term) *Term { return toBVw(c, t, 32) }

func bvOpWidth(a, b *Term) int {
	w := 32
	if a.IsBV() && bvWidth(a.Sort) > w {
		w = bvWidth(a.Sort)
	}
	if b.IsBV() && bvWidth(b.Sort) > w {
		w = bvWidth(b.Sort)
	}
	return w
}

func bvContractOp(c *evalCtx, op token.Token, a, b *Term) *Term {
	w := bvOpWidth(a, b)
	x, y := toBVw(c, a, w), toBVw(c, b, w)
	s := bvSort(w)
	switch op {
	case token.ADD:
		return App("bvadd", s, x, y)
	case token.SUB:
		return App("bvsub", s, x, y)
	case token.MUL:
		return App("bvmul", s, x, y)
	case token.QUO:
		return App("bvudiv", s, x, y)
	case token.REM:
		return App("bvurem", s, x, y)
	case token.AND:
		return App("bvand", s, x, y)
	case token.OR:
		return App("bvor", s, x, y)
	case token.SHL:
		return App("bvshl", s, x, y)
	case token.SHR:
		return App("bvlshr", s, x, y)
	case token.LSS:
		return App("bvult", SBool, x, y)
	case token.LEQ:
		return App("bvule", SBool, x, y)
	case token.GTR:
		return App("bvugt", SBool, x, y)
	case token.GEQ:
		return App("bvuge", SBool, x, y)
	}
	c.errf("operator %s not supported in bit-vector contracts", op)
	return nil
}

// resolvable: every free identifier of e that is not a contract function, define, spec
// function, field name or package-level object is bound in this context.
func (c *evalCtx) resolvable(e ast.Expr) bool {
	ok := true
	bound := map[string]bool{}
	var visit func(n ast.Node) bool
	visit = func(n ast.Node) bool {
		switch v := n.(type) {
		case *ast.CallExpr:
			if id, isID := v.Fun.(*ast.Ident); isID {
				if (id.Name == "forall" || id.Name == "forallv" || id.Name == "exists" || id.Name == "forallint" || id.Name == "forallkey") && len(v.Args) > 0 {
					if bid, isB := v.Args[0].(*ast.Ident); isB {
						bound[bid.Name] = true
					}
				}
				if id.Name == "fieldslice" {
					if len(v.Args) > 0 {
						ast.Inspect(v.Args[0], visit)
					}
					return false
				}
				if id.Name == "ghost" || id.Name == "gmap" || id.Name == "gmapa" || id.Name == "gmapk" {
					return false
				}
				for _, a := range v.Args {
					ast.Inspect(a, visit)
				}
				return false
			}
		case *ast.SelectorExpr:
			ast.Inspect(v.X, visit)
			return false
		case *ast.Ident:
			switch v.Name {
			case "true", "false", "nil", "inf":
				return true
			}
			if bound[v.Name] {
				return true
			}
			if _, found := c.lookupName(v.Name); found {
				return true
			}
			if c.pkg != nil && c.pkg.Scope().Lookup(v.Name) != nil {
				return true
			}
			for _, pk := range c.x.p.prog.AllPackages() {
				if pk.Pkg.Name() == v.Name {
					return true
				}
			}
			ok = false
		}
		return true
	}
	ast.Inspect(e, visit)
	return ok
}

// GMap is a ghost map value in contract expressions.
type GMap struct {
	Kind, Name string
	T          *Term
}
