package main

import (
	"fmt"
	"go/ast"
	"go/constant"
	"go/token"
	"go/types"
	"math/big"
	"os"
	"path/filepath"
	"sort"
	"strings"

	"golang.org/x/tools/go/ssa"
)

// Program bundles the SSA of /repo (one tag set) with the contracts.
type Program struct {
	prog     *ssa.Program
	fset     *token.FileSet
	pkgs     map[string]*ssa.Package
	cs       map[string]*ContractSet // per verified package path
	spec     *ContractSet            // /verif/spec (externs, defines, spec functions, axioms)
	tags     string
	verified map[string]bool
	infos    map[*ssa.Function]*fnInfo
	strIDs   map[string]int64
	typeIDs  map[string]int64
	globals  map[*ssa.Global]Value
	errIDs   map[string]int64
	trusted  map[string]bool // extern contracts / interface contracts actually used
	transp   map[string]bool // transparent functions unfolded
	reach    map[*ssa.Function]map[*ssa.Function]bool
}

func funcKey(fn *ssa.Function) (pkg, key string) {
	if fn.Parent() != nil {
		p, k := funcKey(fn.Parent())
		return p, k + "$" + strings.TrimPrefix(fn.Name(), fn.Parent().Name()+"$")
	}
	if recv := fn.Signature.Recv(); recv != nil {
		rt := recv.Type()
		ptr := false
		if p, ok := rt.(*types.Pointer); ok {
			ptr = true
			rt = p.Elem()
		}
		if named, ok := rt.(*types.Named); ok {
			name := named.Obj().Name()
			if named.Obj().Pkg() != nil {
				pkg = named.Obj().Pkg().Path()
			}
			if ptr {
				return pkg, "(*" + name + ")." + fn.Name()
			}
			return pkg, name + "." + fn.Name()
		}
	}
	if fn.Pkg != nil {
		pkg = fn.Pkg.Pkg.Path()
	} else if fn.Object() != nil && fn.Object().Pkg() != nil {
		pkg = fn.Object().Pkg().Path()
	}
	return pkg, fn.Name()
}

func externKey(pkg, key string) string {
	if strings.HasPrefix(key, "(*") {
		return "(*" + pkg + "." + key[2:]
	}
	return pkg + "." + key
}

// contractFor finds the contract of a function (in-repo or extern).
func (p *Program) contractFor(fn *ssa.Function) *FuncContract {
	pkg, key := funcKey(fn)
	if cs, ok := p.cs[pkg]; ok {
		if fc, ok := cs.Funcs[key]; ok {
			return fc
		}
	}
	if fc, ok := p.spec.Funcs[externKey(pkg, key)]; ok {
		return fc
	}
	return nil
}

func (p *Program) define(name string) *Define {
	for _, cs := range p.cs {
		if d, ok := cs.Defines[name]; ok {
			return d
		}
	}
	if d, ok := p.spec.Defines[name]; ok {
		return d
	}
	return nil
}

var globalStrIDs = map[string]int64{}

func (p *Program) strID(s string) int64 {
	if s == "" {
		return 0
	}
	if id, ok := p.strIDs[s]; ok {
		return id
	}
	// one numbering for all programs of a run (tag sets): the facts about constant strings are keyed by it
	id, ok := globalStrIDs[s]
	if !ok {
		id = int64(1000 + len(globalStrIDs))
		globalStrIDs[s] = id
		if !strings.HasPrefix(s, "iface:") {
			constStrings[id] = s
		}
	}
	p.strIDs[s] = id
	return id
}

func (p *Program) typeID(t types.Type) int64 {
	k := types.TypeString(t, nil)
	if id, ok := p.typeIDs[k]; ok {
		return id
	}
	// a contract may have named the type first (typeid("CloseErr")): same identity
	for short, id := range p.typeIDs {
		if strings.HasSuffix(k, "."+short) || strings.HasSuffix(k, "/"+short) {
			p.typeIDs[k] = id
			return id
		}
	}
	id := int64(10 + len(p.typeIDs))
	p.typeIDs[k] = id
	return id
}

// ---- per-function static info ----

type fnInfo struct {
	headers   map[int]int          // header block index -> loop ordinal
	backEdges map[[2]int]bool      // (from,to)
	loopBlks  map[int]map[int]bool // header -> set of block indices in the natural loop
	order     []int                // headers in ordinal order
}

func (p *Program) info(fn *ssa.Function) *fnInfo {
	if fi, ok := p.infos[fn]; ok {
		return fi
	}
	fi := &fnInfo{headers: map[int]int{}, backEdges: map[[2]int]bool{}, loopBlks: map[int]map[int]bool{}}
	for _, b := range fn.Blocks {
		for _, s := range b.Succs {
			if s.Dominates(b) {
				fi.backEdges[[2]int{b.Index, s.Index}] = true
				if _, ok := fi.loopBlks[s.Index]; !ok {
					fi.loopBlks[s.Index] = map[int]bool{s.Index: true}
				}
				// natural loop: nodes that reach b without passing through s
				var stack []*ssa.BasicBlock
				if !fi.loopBlks[s.Index][b.Index] {
					fi.loopBlks[s.Index][b.Index] = true
					stack = append(stack, b)
				}
				for len(stack) > 0 {
					n := stack[len(stack)-1]
					stack = stack[:len(stack)-1]
					for _, pr := range n.Preds {
						if !fi.loopBlks[s.Index][pr.Index] {
							fi.loopBlks[s.Index][pr.Index] = true
							stack = append(stack, pr)
						}
					}
				}
			}
		}
	}
	for h := range fi.loopBlks {
		fi.order = append(fi.order, h)
	}
	sort.Ints(fi.order)
	for i, h := range fi.order {
		fi.headers[h] = i
	}
	p.infos[fn] = fi
	return fi
}

// ---- executor ----

type Exec struct {
	p        *Program
	fn       *ssa.Function
	fc       *FuncContract
	key      string
	obs      []*Obligation
	names    map[string]int
	paths    int
	errs     []string
	params   map[string]Value
	entry    *State
	bv       bool
	maxPath  int
	locs     []loc
	locsDone bool
	smokes   []*smoke
	nfeas    int
	pruned   int
	deriving bool // proving the derives clauses of x.fc from its own contract: they are not assumed at the (synthetic) call
}

// smoke is a vacuity probe: the hypotheses after assuming a contract/invariant
// must not be contradictory unless they already were before.
type smoke struct {
	name          string
	before, after []*Term
}

func (x *Exec) addSmoke(name string, before []*Term, st *State) {
	x.names["smoke/"+name]++
	x.smokes = append(x.smokes, &smoke{name: fmt.Sprintf("%s/smoke/%s#%d", x.key, name, x.names["smoke/"+name]),
		before: before, after: append([]*Term(nil), st.hyps...)})
}

type pathEnd struct{}

func (x *Exec) fail(format string, a ...interface{}) {
	msg := fmt.Sprintf(format, a...)
	for _, e := range x.errs {
		if e == msg {
			return
		}
	}
	x.errs = append(x.errs, msg)
}

func (x *Exec) pos(p token.Pos) string {
	if !p.IsValid() {
		return "-"
	}
	ps := x.p.fset.Position(p)
	f := ps.Filename
	if i := strings.LastIndex(f, "/"); i >= 0 {
		f = f[i+1:]
	}
	return fmt.Sprintf("%s:%d", f, ps.Line)
}

// oblige records a proof duty.
func (x *Exec) oblige(st *State, kind, site, descr string, props []string, goal *Term) {
	if st.dead || goal == tErr {
		return
	}
	if goal.Op == "=>" && len(goal.Args) == 2 && isQuantified(goal.Args[0]) {
		// P ==> Q with a quantified P (an invariant carried from the old state to the new one): assume P, prove Q.
		// What is literally known then closes without a solver (modus ponens in assume, hypothesis look-up below).
		st2 := st.clone()
		st2.assume(goal.Args[0])
		// implications already among the hypotheses whose (quantified) antecedent has just become literally known
		for round := 0; round < 3; round++ {
			fired := false
			for _, h := range append([]*Term(nil), st2.hyps...) {
				if h.Op != "=>" || len(h.Args) != 2 || !isQuantified(h.Args[0]) {
					continue
				}
				all := true
				for _, c := range conjuncts(h.Args[0]) {
					if !st2.hypSet[c.String()] {
						all = false
						break
					}
				}
				if all && !st2.hypSet[h.Args[1].String()] {
					n := len(st2.hyps)
					st2.assume(h.Args[1])
					if len(st2.hyps) > n {
						fired = true
					}
				}
			}
			if !fired {
				break
			}
		}
		x.oblige(st2, kind, site, descr, props, goal.Args[1])
		return
	}
	base := fmt.Sprintf("%s/%s/%s", x.key, kind, site)
	x.names[base]++
	parts := splitGoal(goal)
	hyps := append([]*Term(nil), st.hyps...)
	for k, g := range parts {
		if st.hypSet[g.String()] {
			g = tTrue // literally one of the hypotheses
		}
		name := fmt.Sprintf("%s#%d", base, x.names[base])
		if len(parts) > 1 {
			name = fmt.Sprintf("%s#%d.%d", base, x.names[base], k+1)
		}
		ob := &Obligation{Name: name, Func: x.key, Kind: kind, Props: props, Pos: site, Descr: descr,
			Hyps: hyps, Goal: g, Tags: x.p.tags}
		if x.fc != nil {
			ob.Uses = x.fc.Uses
		}
		ob.Abstracted = append([]string(nil), st.abstracted...)
		x.obs = append(x.obs, ob)
	}
}

// splitGoal splits a goal into independently provable conjuncts:
// A && B  ->  A, B ;  H => (A && B)  ->  H => A, H => B ;  forall x. (A && B)  ->  forall x. A, forall x. B.
func splitGoal(g *Term) []*Term {
	switch g.Op {
	case "and":
		var out []*Term
		for _, a := range g.Args {
			out = append(out, splitGoal(a)...)
		}
		return out
	case "=>":
		if len(g.Args) == 2 {
			parts := splitGoal(g.Args[1])
			if len(parts) > 1 {
				out := make([]*Term, len(parts))
				for i, p := range parts {
					out[i] = Implies(g.Args[0], p)
				}
				return out
			}
		}
	case "forall":
		parts := splitGoal(g.Args[0])
		if len(parts) > 1 {
			out := make([]*Term, len(parts))
			for i, p := range parts {
				out[i] = Forall(g.Bound, p)
			}
			return out
		}
	}
	return []*Term{g}
}

func (x *Exec) safetyProps() []string {
	if x.fc != nil {
		return x.fc.Safety
	}
	return nil
}

func (x *Exec) allProps() []string {
	var ps []string
	if x.fc != nil {
		for p := range x.fc.AllProps {
			ps = append(ps, p)
		}
	}
	sort.Strings(ps)
	return ps
}

// safety duty with the function's safety props.
func (x *Exec) safe(st *State, kind string, pos token.Pos, descr string, goal *Term) {
	x.oblige(st, "safety-"+kind, x.pos(pos), descr, x.safetyProps(), goal)
	// after the duty, the condition may be assumed on this path (the duty covers the other case)
	st.assume(goal)
}

// verify symbolically executes fn against its contract and returns the obligations.
func (p *Program) verify(fn *ssa.Function, fc *FuncContract) (x *Exec) {
	_, key := funcKey(fn)
	x = &Exec{p: p, fn: fn, fc: fc, key: key, names: map[string]int{}, params: map[string]Value{}, maxPath: 400}
	if fc != nil && fc.Mode == "bv" {
		x.bv = true
		bvMode = true
		defer func() { bvMode = false }()
	}
	defer func() {
		if r := recover(); r != nil {
			if ue, ok := r.(error); ok {
				if _, ok := ue.(unsupportedErr); ok {
					x.fail("%v", ue)
					return
				}
			}
			if _, ok := r.(pathEnd); ok {
				return
			}
			if os.Getenv("STUNVC_PANIC") != "" {
				panic(r)
			}
			// a construct the symbolic executor has no case for (met on changed code): the function has left the
			// supported subset - reported as not verified and decided by replay, like every other unsupported construct
			x.fail("unsupported construct (generator: %v)", r)
		}
	}()
	if fn.Blocks == nil {
		x.fail("no body for %s", key)
		return x
	}
	st := &State{hypSet: map[string]bool{}, heap: &Heap{fam: map[string]*Term{}, alloc: Sym("alloc@0", SArrB)},
		ghost: map[string]*Term{}}
	st.assume(Select(st.heap.alloc, Int(0)))
	fr := &Frame{fn: fn, env: map[ssa.Value]Value{}, names: map[string]Value{}, loops: map[int]*loopSnap{}, info: p.info(fn)}
	st.top = fr
	for i, prm := range fn.Params {
		name := prm.Name()
		if fc != nil && i < len(fc.Params) {
			name = fc.Params[i] // positional names from the contract (build-tag variants name parameters differently)
		}
		if name == "_" || name == "" {
			name = fmt.Sprintf("arg%d", i)
		}
		v := st.freshValue(name, prm.Type())
		if pv, ok := v.(Ptr); ok {
			pv.R = Sym(name, SInt)
			v = pv
		}
		fr.env[prm] = v
		x.params[name] = v
		fr.names[name] = v
	}
	for i, fv := range fn.FreeVars {
		v := st.freshValue(fmt.Sprintf("fv%d.%s", i, fv.Name()), fv.Type())
		if pv, ok := v.(Ptr); ok {
			// a captured variable lives in a cell the enclosing function allocated: never nil, allocated at entry
			st.assume(Not(Eq(pv.R, Int(0))))
			st.assume(Select(st.heap.alloc, pv.R))
			// in contracts the captured variable is named like in the source: its value, not its cell
			fr.names[fv.Name()] = st.load(st.heap, pv, true)
			fr.names["cell_"+fv.Name()] = v // the cell itself (its content can change across calls and loop iterations)
		}
		fr.env[fv] = v
	}
	st.old = st.heap.clone()
	st.oldGh = map[string]*Term{}
	// requires
	if fc != nil {
		for _, c := range fc.Requires {
			t := x.evalBool(st, c, x.ctxFor(st, fr, st.old, nil))
			st.assume(t)
		}
	}
	// the old heap may have acquired new entry families while evaluating requires
	st.old = st.heap.clone()
	for k, v := range st.ghost {
		st.oldGh[k] = v
	}
	x.entry = st.clone()
	x.addSmoke("requires", nil, st)
	fr.block = fn.Blocks[0]
	x.staticRecursion(st)
	x.staticLockOnce(st)
	x.staticLoopPolls(st)
	for _, ob := range x.obs {
		ob.Static = true // everything generated so far is structural
	}
	x.runPaths(st)
	return x
}

// verifyDerived proves the `derives` clauses of fc: two-state consequences of the contract itself. The function is
// *called* once, modularly, from an arbitrary state satisfying its precondition (requires proved trivially, assigns
// havocked, ensures assumed) and each derives clause must hold in the resulting state. The body plays no part: the
// clause holds for every implementation that satisfies the contract, and callers may rely on it like on an ensures.
func (p *Program) verifyDerived(fn *ssa.Function, fc *FuncContract) (x *Exec) {
	_, key := funcKey(fn)
	x = &Exec{p: p, fn: fn, fc: fc, key: key, names: map[string]int{}, params: map[string]Value{}, maxPath: 400, deriving: true}
	defer func() {
		if r := recover(); r != nil {
			if ue, ok := r.(error); ok {
				if _, ok := ue.(unsupportedErr); ok {
					x.fail("%v", ue)
					return
				}
			}
			if _, ok := r.(pathEnd); ok {
				return
			}
			panic(r)
		}
	}()
	if fn.Blocks == nil {
		x.fail("no body for %s", key)
		return x
	}
	st := &State{hypSet: map[string]bool{}, heap: &Heap{fam: map[string]*Term{}, alloc: Sym("alloc@0", SArrB)},
		ghost: map[string]*Term{}}
	st.assume(Select(st.heap.alloc, Int(0)))
	fr := &Frame{fn: fn, env: map[ssa.Value]Value{}, names: map[string]Value{}, loops: map[int]*loopSnap{}, info: p.info(fn)}
	st.top = fr
	var names []string
	var args []Value
	for i, prm := range fn.Params {
		name := prm.Name()
		if i < len(fc.Params) {
			name = fc.Params[i]
		}
		if name == "_" || name == "" {
			name = fmt.Sprintf("arg%d", i)
		}
		v := st.freshValue(name, prm.Type())
		if pv, ok := v.(Ptr); ok {
			pv.R = Sym(name, SInt)
			v = pv
		}
		fr.env[prm] = v
		x.params[name] = v
		fr.names[name] = v
		names = append(names, name)
		args = append(args, v)
	}
	st.old = st.heap.clone()
	st.oldGh = map[string]*Term{}
	for _, c := range fc.Requires {
		st.assume(x.evalBool(st, c, x.ctxFor(st, fr, st.old, nil)))
	}
	st.old = st.heap.clone()
	for k, v := range st.ghost {
		st.oldGh[k] = v
	}
	x.entry = st.clone()
	fr.block = fn.Blocks[0]
	res := x.applyContract(st, fr, fc, key, names, args, fn.Signature.Results(), fn.Pos())
	x.obs = nil // the duties of the synthetic call (requires, frame) are the contract's own clauses
	vars := map[string]Value{}
	if t, ok := res.(Tup); ok {
		for i, v := range t {
			vars[fmt.Sprintf("result%d", i)] = v
		}
		if len(t) == 1 {
			vars["result"] = t[0]
		}
	} else {
		vars["result"] = res
	}
	c := x.ctxFor(st, fr, st.old, vars)
	for _, cl := range fc.DeriveUses {
		if t := x.useLemma(st, cl, c); t != nil {
			st.assume(t)
		}
	}
	for _, cl := range fc.Derives {
		t := x.evalBool(st, cl, c)
		x.oblige(st, "derived", fmt.Sprintf("%s@%s", lineOf(cl.Line), x.pos(fn.Pos())), cl.Src, cl.Props, t)
		st.assume(t)
	}
	x.paths = 1
	return x
}

func (x *Exec) runPaths(st *State) {
	defer func() {
		if r := recover(); r != nil {
			if _, ok := r.(pathEnd); ok {
				return
			}
			panic(r) // handled in verify
		}
	}()
	x.run(st)
}

func (x *Exec) endPath() { panic(pathEnd{}) }

// run executes one path until it ends; forks recurse.
func (x *Exec) run(st *State) {
	for {
		if st.dead {
			x.paths++
			return
		}
		fr := st.top
		if fr.idx >= len(fr.block.Instrs) {
			panic(fmt.Sprintf("fell off block %d of %s", fr.block.Index, fr.fn.Name()))
		}
		ins := fr.block.Instrs[fr.idx]
		fr.idx++
		if done := x.step(st, fr, ins); done {
			x.paths++
			if x.paths > x.maxPath {
				x.fail("path limit exceeded (%d)", x.maxPath)
				x.endPath()
			}
			return
		}
	}
}

func (x *Exec) val(st *State, fr *Frame, v ssa.Value) Value {
	switch c := v.(type) {
	case *ssa.Const:
		return x.constVal(c)
	case *ssa.Global:
		return Ptr{Glob: c, Elem: c.Type().(*types.Pointer).Elem()}
	case *ssa.Function:
		return Fn{Fn: c, T: Int(x.p.strID("fn:" + c.String()))}
	case *ssa.Builtin:
		return c
	}
	if r, ok := fr.env[v]; ok {
		return r
	}
	panic(fmt.Sprintf("%s: no value for %s (%T) in %s", x.key, v.Name(), v, fr.fn.Name()))
}

func (x *Exec) constVal(c *ssa.Const) Value {
	t := c.Type()
	if c.Value == nil {
		return zeroVal(t)
	}
	switch c.Value.Kind() {
	case constant.Bool:
		return Sc{Bool(constant.BoolVal(c.Value))}
	case constant.Int:
		bi, _ := new(big.Int).SetString(c.Value.ExactString(), 10)
		if x.bv {
			return Sc{bvConst(bi, bitsOf(t))}
		}
		return Sc{BigInt(bi)}
	case constant.String:
		return Sc{Int(x.p.strID(constant.StringVal(c.Value)))}
	case constant.Float:
		return Sc{Int(0)}
	}
	panic(unsupported("constant " + c.String()))
}

func scT(v Value) *Term {
	switch vv := v.(type) {
	case Sc:
		return vv.T
	case Fn:
		return vv.T
	}
	panic(fmt.Sprintf("scalar expected, got %T", v))
}

// step executes one instruction; returns true when the path ended.
func (x *Exec) step(st *State, fr *Frame, ins ssa.Instruction) bool {
	switch i := ins.(type) {
	case *ssa.DebugRef:
		if id, ok := i.Expr.(*ast.Ident); ok {
			if _, isVar := i.Object().(*types.Var); isVar {
				v := x.val(st, fr, i.X)
				if i.IsAddr {
					fr.names["&"+id.Name] = v
				} else {
					fr.names[id.Name] = v
				}
			}
		}
	case *ssa.Alloc:
		at := i.Type().(*types.Pointer).Elem()
		if tag, ok := privateLocal(i); ok {
			at = &localType{T: at, Tag: tag}
		}
		fr.env[i] = x.alloc(st, at, i.Comment)
		if i.Comment != "" {
			fr.names["&"+i.Comment] = fr.env[i]
		}
	case *ssa.Phi:
		// handled at block entry
	case *ssa.UnOp:
		fr.env[i] = x.unop(st, fr, i)
	case *ssa.BinOp:
		fr.env[i] = x.binop(st, fr, i)
	case *ssa.Convert:
		fr.env[i] = x.convert(st, x.val(st, fr, i.X), i.X.Type(), i.Type(), i.Pos())
	case *ssa.ChangeType:
		fr.env[i] = retype(x.val(st, fr, i.X), i.Type())
	case *ssa.ChangeInterface:
		fr.env[i] = x.val(st, fr, i.X)
	case *ssa.MakeInterface:
		fr.env[i] = x.makeIface(st, x.val(st, fr, i.X), i.X.Type())
	case *ssa.TypeAssert:
		fr.env[i] = x.typeAssert(st, fr, i)
	case *ssa.FieldAddr:
		pv := x.val(st, fr, i.X).(Ptr)
		x.nilCheck(st, pv, i.Pos(), "field address of nil pointer")
		fr.env[i] = fieldPtr(pv, i.Field)
	case *ssa.Field:
		fr.env[i] = x.val(st, fr, i.X).(St).F[i.Field]
	case *ssa.IndexAddr:
		fr.env[i] = x.indexAddr(st, fr, i)
	case *ssa.Index:
		av := x.val(st, fr, i.X)
		idx := scT(x.val(st, fr, i.Index))
		switch a := av.(type) {
		case Ar:
			x.safe(st, "index", i.Pos(), "array index in range", And(Le(Int(0), idx), Lt(idx, Int(a.N))))
			fr.env[i] = Sc{Select(a.A, idx)}
		case Sc:
			fr.env[i] = x.stringIndex(st, fr, a, idx, i.Pos())
		default:
			panic(unsupported(fmt.Sprintf("Index on %T", av)))
		}
	case *ssa.Slice:
		fr.env[i] = x.slice(st, fr, i)
	case *ssa.MakeSlice:
		l := scT(x.val(st, fr, i.Len))
		c := scT(x.val(st, fr, i.Cap))
		x.safe(st, "makeslice", i.Pos(), "make: 0 <= len <= cap", And(Le(Int(0), l), Le(l, c)))
		et := i.Type().Underlying().(*types.Slice).Elem()
		r := st.allocRegion("make")
		x.zeroRegion(st, et, r)
		fr.env[i] = Sl{R: r, O: Int(0), L: l, C: c, Elem: et}
	case *ssa.MakeClosure:
		fn := i.Fn.(*ssa.Function)
		var bind []Value
		for _, b := range i.Bindings {
			bind = append(bind, x.val(st, fr, b))
		}
		t := Sym(fresh("closure"), SInt)
		st.assume(Gt(t, Int(0)))
		fr.env[i] = Fn{Fn: fn, Bind: bind, T: t}
	case *ssa.MakeMap:
		fr.env[i] = x.makeMap(st, i.Type())
	case *ssa.MakeChan:
		// a channel is an identity (a fresh region number) that is open: chclosed[ch] == 0
		ch := st.allocRegion("chan")
		st.assume(Eq(Select(ghostGet(st.ghost, "chclosed", SArr), ch), Int(0)))
		fr.env[i] = Sc{ch}
	case *ssa.Lookup:
		fr.env[i] = x.lookup(st, fr, i)
	case *ssa.MapUpdate:
		x.mapUpdate(st, fr, i)
	case *ssa.Range:
		fr.env[i] = x.rangeStart(st, fr, i)
	case *ssa.Next:
		fr.env[i] = x.rangeNext(st, fr, i)
	case *ssa.Extract:
		fr.env[i] = x.val(st, fr, i.Tuple).(Tup)[i.Index]
	case *ssa.Store:
		pv := x.val(st, fr, i.Addr).(Ptr)
		v := x.val(st, fr, i.Val)
		x.storeChecked(st, pv, v, i.Pos())
	case *ssa.Call:
		return x.call(st, fr, i, &i.Call, i.Pos())
	case *ssa.Defer:
		d := deferred{call: &i.Call, pos: x.pos(i.Pos())}
		if !i.Call.IsInvoke() {
			d.fn = x.val(st, fr, i.Call.Value)
		} else {
			d.fn = x.val(st, fr, i.Call.Value)
		}
		for _, a := range i.Call.Args {
			d.args = append(d.args, x.val(st, fr, a))
		}
		fr.defers = append(fr.defers, d)
	case *ssa.RunDefers:
		return x.runDefers(st, fr, i)
	case *ssa.Go:
		x.ghostEvent(st, "go", x.pos(i.Pos()))
	case *ssa.Select:
		// Channel readiness is not modelled: any case may be chosen (index unconstrained within range; -1 = default
		// of a non-blocking select), received values are unconstrained. Sound for safety/functional duties of the
		// sequential code; blocking and wake-up order are outside this technique.
		idx := Sym(fresh("select.index"), SInt)
		lo := Int(0)
		if !i.Blocking {
			lo = Int(-1)
		}
		st.assume(And(Le(lo, idx), Lt(idx, Int(int64(len(i.States))))))
		tup := Tup{Sc{idx}, Sc{Sym(fresh("select.ok"), SBool)}}
		for _, sst := range i.States {
			if sst.Dir == types.RecvOnly {
				et := sst.Chan.Type().Underlying().(*types.Chan).Elem()
				tup = append(tup, st.freshValue(fresh("select.recv"), et))
			}
		}
		fr.env[i] = tup
	case *ssa.Send:
		panic(unsupported("channel operation " + ins.String()))
	case *ssa.Panic:
		x.oblige(st, "safety-panic", x.pos(i.Pos()), "explicit panic unreachable", x.safetyProps(), tFalse)
		return true
	case *ssa.If:
		c := scT(x.val(st, fr, i.Cond))
		thenB, elseB := fr.block.Succs[0], fr.block.Succs[1]
		switch {
		case c.IsTrue():
			return x.jump(st, fr, thenB)
		case c.IsFalse():
			return x.jump(st, fr, elseB)
		}
		if !x.feasible(st, c) {
			st.assume(Not(c))
			return x.jump(st, fr, elseB)
		}
		if !x.feasible(st, Not(c)) {
			st.assume(c)
			return x.jump(st, fr, thenB)
		}
		st2 := st.clone()
		st2.assume(Not(c))
		st2.trace = append(st2.trace, fmt.Sprintf("%s:b%d->b%d", fr.fn.Name(), fr.block.Index, elseB.Index))
		if !x.jump(st2, st2.top, elseB) {
			x.run(st2)
		} else {
			x.paths++
		}
		st.assume(c)
		st.trace = append(st.trace, fmt.Sprintf("%s:b%d->b%d", fr.fn.Name(), fr.block.Index, thenB.Index))
		return x.jump(st, fr, thenB)
	case *ssa.Jump:
		return x.jump(st, fr, fr.block.Succs[0])
	case *ssa.Return:
		var res Value
		switch len(i.Results) {
		case 0:
			res = Tup{}
		case 1:
			res = x.val(st, fr, i.Results[0])
		default:
			var t Tup
			for _, r := range i.Results {
				t = append(t, x.val(st, fr, r))
			}
			res = t
		}
		return x.ret(st, fr, res, i.Pos())
	default:
		panic(unsupported(fmt.Sprintf("instruction %T: %s", ins, ins)))
	}
	return false
}

func retype(v Value, t types.Type) Value {
	switch vv := v.(type) {
	case Ptr:
		if pt, ok := t.Underlying().(*types.Pointer); ok {
			if len(vv.Path) == 0 && !vv.ArrRegion && vv.Glob == nil {
				vv.Root = pt.Elem()
			}
			vv.Elem = pt.Elem()
		}
		return vv
	case Sl:
		if stp, ok := t.Underlying().(*types.Slice); ok {
			vv.Elem = stp.Elem()
		}
		return vv
	case St:
		vv.Typ = t
		return vv
	}
	return v
}

func fieldPtr(pv Ptr, field int) Ptr {
	st := pv.Elem.Underlying().(*types.Struct)
	np := pv
	np.Path = append(append([]pathElem(nil), pv.Path...), pathElem{Field: field})
	np.Elem = st.Field(field).Type()
	return np
}

func isFreshSym(t *Term) bool {
	return t.Op == "sym" && (strings.HasPrefix(t.Name, "fresh.") || strings.HasPrefix(t.Name, "closure"))
}

func (x *Exec) nilCheck(st *State, pv Ptr, pos token.Pos, what string) {
	if pv.Glob != nil || isFreshSym(pv.R) {
		return
	}
	x.safe(st, "nil", pos, what, Not(Eq(pv.R, Int(0))))
}

// alloc creates a new zeroed object of type t and returns a pointer to it.
// privateLocal: the address of this local is only used to load, store and address fields / elements (it is never
// passed, stored, captured, sliced or converted), so nothing else can alias it.
var privCache = map[*ssa.Alloc]string{}

func privateLocal(a *ssa.Alloc) (string, bool) {
	if os.Getenv("STUNVC_NO_PRIVATE_LOCALS") != "" {
		return "", false
	}
	if tag, ok := privCache[a]; ok {
		return tag, tag != ""
	}
	privCache[a] = ""
	if a.Heap {
		return "", false
	}
	el := a.Type().(*types.Pointer).Elem()
	if _, _, isSc := scalarSort(el); isSc {
		return "", false
	}
	switch u := el.Underlying().(type) {
	case *types.Struct:
	case *types.Array:
		if _, _, isSc := scalarSort(u.Elem()); !isSc {
			return "", false
		}
	default:
		return "", false
	}
	var ok func(v ssa.Value) bool
	ok = func(v ssa.Value) bool {
		refs := v.Referrers()
		if refs == nil {
			return false
		}
		for _, ref := range *refs {
			switch r := ref.(type) {
			case *ssa.DebugRef:
			case *ssa.UnOp:
				if r.Op != token.MUL {
					return false
				}
			case *ssa.Store:
				if r.Val == v {
					return false
				}
			case *ssa.FieldAddr:
				if !ok(r) {
					return false
				}
			case *ssa.IndexAddr:
				if r.X != v || !ok(r) {
					return false
				}
			default:
				return false
			}
		}
		return true
	}
	if !ok(a) {
		return "", false
	}
	idx := 0
	for k, ins := range a.Block().Instrs {
		if ins == a {
			idx = k
		}
	}
	name := strings.Map(func(r rune) rune {
		if r == '_' || r >= '0' && r <= '9' || r >= 'a' && r <= 'z' || r >= 'A' && r <= 'Z' {
			return r
		}
		return -1
	}, a.Comment)
	tag := fmt.Sprintf("%s_%s_%d_%d", a.Parent().Name(), name, a.Block().Index, idx)
	tag = strings.Map(func(r rune) rune {
		if r == '_' || r >= '0' && r <= '9' || r >= 'a' && r <= 'z' || r >= 'A' && r <= 'Z' {
			return r
		}
		return '_'
	}, tag)
	privCache[a] = tag
	return tag, true
}

func (x *Exec) alloc(st *State, t types.Type, hint string) Ptr {
	if hint == "" {
		hint = "obj"
	}
	hint = strings.Map(func(r rune) rune {
		if r == '_' || r >= '0' && r <= '9' || r >= 'a' && r <= 'z' || r >= 'A' && r <= 'Z' {
			return r
		}
		return -1
	}, hint)
	r := st.allocRegion(hint)
	if at, ok := t.Underlying().(*types.Array); ok {
		var root types.Type = at.Elem()
		if lt, isL := t.(*localType); isL {
			root = &localType{T: at.Elem(), Tag: lt.Tag}
			t = lt.T
		}
		x.zeroRegion(st, root, r)
		return Ptr{R: r, I: Int(0), Root: root, Elem: t, ArrRegion: true}
	}
	if lt, isL := t.(*localType); isL {
		x.zeroRegion(st, t, r)
		return Ptr{R: r, I: Int(0), Root: t, Elem: lt.T}
	}
	x.zeroRegion(st, t, r)
	if _, isStruct := t.Underlying().(*types.Struct); isStruct {
		// the zero value of a mutex is unlocked: a freshly allocated object is not held
		// (an assumption about the ghost array at an index nothing has constrained yet, not a store: the proof
		// obligations about other objects keep their syntactic shape)
		st.assume(Eq(Select(ghostGet(st.ghost, "held", SArr), r), Int(0)))
	}
	return Ptr{R: r, I: Int(0), Root: t, Elem: t}
}

// zeroRegion sets every leaf family of root at region r to the all-zero array.
func (x *Exec) zeroRegion(st *State, root types.Type, r *Term) {
	walkType(root, "", func(l leaf, _ types.Type, _ string) {
		name := familyName(root, l.path)
		fam := st.heap.family(name, l.sort)
		var z *Term
		switch {
		case l.sort == SBool:
			z = tFalse
		case l.sort == SInt:
			z = Int(0)
		case strings.HasPrefix(l.sort, "(_ BitVec"):
			z = bvConst(big.NewInt(0), bvWidth(l.sort))
		default:
			zz := Int(0)
			z = App("(as const "+l.sort+")", l.sort, zz)
		}
		as := arrSort(SInt, l.sort)
		st.heap.fam[name] = Store(fam, r, App("(as const "+as+")", as, z))
	})
}

func (x *Exec) unop(st *State, fr *Frame, i *ssa.UnOp) Value {
	v := x.val(st, fr, i.X)
	switch i.Op {
	case token.MUL:
		pv := v.(Ptr)
		if pv.Glob != nil {
			return x.p.globalValue(st, pv.Glob)
		}
		x.nilCheck(st, pv, i.Pos(), "load through nil pointer")
		x.guardCheck(st, pv, i.Pos(), "read")
		lv := st.load(st.heap, pv, true)
		if mv, ok := lv.(MapV); ok && len(pv.Path) > 0 && pv.Path[0].Index == nil {
			if g := x.p.guardFor(pv.Root); g != nil {
				if stt, ok := pv.Root.Underlying().(*types.Struct); ok && g.Fields[stt.Field(pv.Path[0].Field).Name()] {
					mv.Guard, mv.GuardInfo = pv.R, g
					lv = mv
				}
			}
		}
		return lv
	case token.NOT:
		return Sc{Not(scT(v))}
	case token.SUB:
		if x.bv {
			return Sc{App("bvneg", scT(v).Sort, scT(v))}
		}
		return Sc{x.wrap(Neg(scT(v)), i.Type())}
	case token.XOR:
		if x.bv {
			return Sc{App("bvnot", scT(v).Sort, scT(v))}
		}
		b, ok := i.Type().Underlying().(*types.Basic)
		if ok && b.Info()&types.IsUnsigned != 0 {
			m := new(big.Int).Lsh(big.NewInt(1), uint(bitsOf(i.Type())))
			return Sc{Sub(BigInt(new(big.Int).Sub(m, big.NewInt(1))), scT(v))}
		}
		return Sc{Sub(Int(-1), scT(v))}
	case token.ARROW:
		panic(unsupported("channel receive"))
	}
	panic(unsupported("unop " + i.Op.String()))
}

func bitsOf(t types.Type) int {
	b, ok := t.Underlying().(*types.Basic)
	if !ok {
		return 64
	}
	switch b.Kind() {
	case types.Int8, types.Uint8:
		return 8
	case types.Int16, types.Uint16:
		return 16
	case types.Int32, types.Uint32:
		return 32
	}
	return 64
}

func isUnsigned(t types.Type) bool {
	b, ok := t.Underlying().(*types.Basic)
	return ok && b.Info()&types.IsUnsigned != 0
}

func isInteger(t types.Type) bool {
	b, ok := t.Underlying().(*types.Basic)
	return ok && b.Info()&types.IsInteger != 0
}

// wrap applies Go's fixed-width wrap-around (narrow and unsigned types only;
// int/int64 are treated as mathematical integers - listed assumption).
func (x *Exec) wrap(t *Term, typ types.Type) *Term {
	if t.IsBV() {
		return t
	}
	b, ok := typ.Underlying().(*types.Basic)
	if !ok || b.Info()&types.IsInteger == 0 {
		return t
	}
	switch b.Kind() {
	case types.Uint8:
		return WrapU(t, 8)
	case types.Uint16:
		return WrapU(t, 16)
	case types.Uint32:
		return WrapU(t, 32)
	case types.Uint64, types.Uint, types.Uintptr:
		return WrapU(t, 64)
	case types.Int8:
		return WrapS(t, 8)
	case types.Int16:
		return WrapS(t, 16)
	case types.Int32:
		return WrapS(t, 32)
	}
	return t
}

func pow2(n int64) *Term { return BigInt(new(big.Int).Lsh(big.NewInt(1), uint(n))) }

func (x *Exec) binop(st *State, fr *Frame, i *ssa.BinOp) Value {
	a := x.val(st, fr, i.X)
	b := x.val(st, fr, i.Y)
	xt := i.X.Type()
	switch i.Op {
	case token.EQL, token.NEQ:
		var eq *Term
		if isNilConst(i.Y) {
			eq = isNilTerm(a)
		} else if isNilConst(i.X) {
			eq = isNilTerm(b)
		} else {
			eq = x.goEq(a, b, xt)
		}
		if i.Op == token.NEQ {
			eq = Not(eq)
		}
		return Sc{eq}
	}
	if x.bv {
		return Sc{x.bvBinop(i.Op, scT(a), scT(b), xt, i.Y.Type())}
	}
	ta, tb := scT(a), scT(b)
	if ta.Sort == SBool {
		switch i.Op {
		case token.AND, token.LAND:
			return Sc{And(ta, tb)}
		case token.OR, token.LOR:
			return Sc{Or(ta, tb)}
		}
	}
	bt, isBasic := xt.Underlying().(*types.Basic)
	if isBasic && bt.Info()&types.IsString != 0 {
		switch i.Op {
		case token.ADD:
			declareFun("strcat", "(declare-fun strcat (Int Int) Int)")
			return Sc{Strcat(ta, tb)}
		}
		panic(unsupported("string operator " + i.Op.String()))
	}
	typ := i.Type()
	switch i.Op {
	case token.ADD:
		return Sc{x.wrap(Add(ta, tb), typ)}
	case token.SUB:
		return Sc{x.wrap(Sub(ta, tb), typ)}
	case token.MUL:
		return Sc{x.wrap(Mul(ta, tb), typ)}
	case token.QUO:
		x.safe(st, "div", i.Pos(), "division by zero", Not(Eq(tb, Int(0))))
		return Sc{goDiv(ta, tb)}
	case token.REM:
		x.safe(st, "div", i.Pos(), "division by zero", Not(Eq(tb, Int(0))))
		return Sc{goRem(ta, tb)}
	case token.LSS:
		return Sc{Lt(ta, tb)}
	case token.LEQ:
		return Sc{Le(ta, tb)}
	case token.GTR:
		return Sc{Gt(ta, tb)}
	case token.GEQ:
		return Sc{Ge(ta, tb)}
	case token.SHL:
		if tb.IsInt() && tb.Val.IsInt64() && tb.Val.Int64() < 128 {
			return Sc{x.wrap(Mul(ta, pow2(tb.Val.Int64())), typ)}
		}
	case token.SHR:
		if tb.IsInt() && tb.Val.IsInt64() && tb.Val.Int64() < 128 && rangeOf(ta).lo != nil && rangeOf(ta).lo.Sign() >= 0 {
			return Sc{Div(ta, pow2(tb.Val.Int64()))}
		}
		if tb.IsInt() && tb.Val.IsInt64() && tb.Val.Int64() < 128 {
			// arithmetic shift of a possibly negative value = floor division = SMT div for positive divisor
			return Sc{Div(ta, pow2(tb.Val.Int64()))}
		}
	case token.AND:
		if m, ok := lowMask(tb); ok {
			return Sc{Mod(ta, pow2(m))}
		}
		if m, ok := lowMask(ta); ok {
			return Sc{Mod(tb, pow2(m))}
		}
		// general constant mask on a non-negative value: sum of selected bit groups
		if tb.IsInt() && tb.Val.Sign() >= 0 {
			return Sc{maskBits(ta, tb.Val)}
		}
		if ta.IsInt() && ta.Val.Sign() >= 0 {
			return Sc{maskBits(tb, ta.Val)}
		}
	case token.XOR:
		bits := bitsOf(typ)
		name := fmt.Sprintf("xor%d", bits)
		declareXor(bits)
		if ta.IsInt() && tb.IsInt() {
			return Sc{BigInt(new(big.Int).Xor(ta.Val, tb.Val))}
		}
		return Sc{App(name, SInt, ta, tb)}
	case token.OR:
		// a | b with disjoint bit ranges (the byte-assembling idiom x<<8 | y) is a + b
		if la, ha := bitShape(i.X); ha >= 0 {
			if lb, hb := bitShape(i.Y); hb >= 0 && (la >= hb || lb >= ha) {
				return Sc{x.wrap(Add(ta, tb), typ)}
			}
		}
		// otherwise uninterpreted: a failure on this path is not a refutation by itself
		st.abstracted = append(st.abstracted, "bitwise or (uninterpreted)")
		bits := bitsOf(typ)
		name := fmt.Sprintf("or%d", bits)
		declareFun(name, fmt.Sprintf("(declare-fun %s (Int Int) Int)", name))
		if ta.IsInt() && tb.IsInt() {
			return Sc{BigInt(new(big.Int).Or(ta.Val, tb.Val))}
		}
		return Sc{App(name, SInt, ta, tb)}
	case token.AND_NOT:
		if tb.IsInt() && tb.Val.Sign() >= 0 {
			return Sc{Sub(ta, maskBits(ta, tb.Val))}
		}
	}
	panic(unsupported(fmt.Sprintf("binop %s on %s (%s, %s)", i.Op, xt, ta, tb)))
}

// bitShape: (number of low bits known to be zero, number of bits above which the value is known to be zero) of a
// non-negative SSA value, from its shape: constants, unsigned types, widening conversions, left shifts by constants,
// ors / sums of such. hi < 0: unknown (possibly negative).
func bitShape(v ssa.Value) (lo, hi int) {
	unsignedBits := func(t types.Type) int {
		if b, ok := t.Underlying().(*types.Basic); ok && b.Info()&types.IsUnsigned != 0 {
			return bitsOf(t)
		}
		return -1
	}
	switch vv := v.(type) {
	case *ssa.Const:
		if vv.Value == nil {
			return 0, -1
		}
		if c, ok := constant.Int64Val(constant.ToInt(vv.Value)); ok && c >= 0 {
			if c == 0 {
				return 64, 0
			}
			tz := 0
			for c&(1<<uint(tz)) == 0 {
				tz++
			}
			bl := 0
			for c>>uint(bl) != 0 {
				bl++
			}
			return tz, bl
		}
		return 0, -1
	case *ssa.Convert:
		l, h := bitShape(vv.X)
		if h < 0 {
			return 0, unsignedBits(vv.Type())
		}
		if n := unsignedBits(vv.Type()); n >= 0 && n < h {
			h = n // truncation
		}
		return l, h
	case *ssa.BinOp:
		switch vv.Op {
		case token.SHL:
			if c, ok := vv.Y.(*ssa.Const); ok && c.Value != nil {
				if k, ok := constant.Int64Val(constant.ToInt(c.Value)); ok && k >= 0 && k < 64 {
					l, h := bitShape(vv.X)
					if h >= 0 {
						h += int(k)
						if n := unsignedBits(vv.Type()); n >= 0 && h > n {
							h = n
						}
						return l + int(k), h
					}
				}
			}
		case token.OR, token.ADD:
			la, ha := bitShape(vv.X)
			lb, hb := bitShape(vv.Y)
			if ha >= 0 && hb >= 0 && (la >= hb || lb >= ha) {
				l, h := la, ha
				if lb < l {
					l = lb
				}
				if hb > h {
					h = hb
				}
				return l, h
			}
		}
	}
	return 0, unsignedBits(v.Type())
}

func declareXor(bits int) {
	name := fmt.Sprintf("xor%d", bits)
	declareFun(name, fmt.Sprintf("(declare-fun %s (Int Int) Int)", name))
}

// maskBits computes x & mask for x >= 0 as a sum of contiguous bit groups.
func maskBits(x *Term, mask *big.Int) *Term {
	res := Int(0)
	i := 0
	n := mask.BitLen()
	for i < n {
		if mask.Bit(i) == 0 {
			i++
			continue
		}
		j := i
		for j < n && mask.Bit(j) == 1 {
			j++
		}
		// bits i..j-1: ((x div 2^i) mod 2^(j-i)) * 2^i
		g := Mul(pow2(int64(i)), Mod(Div(x, pow2(int64(i))), pow2(int64(j-i))))
		res = Add(res, g)
		i = j
	}
	return res
}

func lowMask(t *Term) (int64, bool) {
	if !t.IsInt() || t.Val.Sign() <= 0 {
		return 0, false
	}
	v := new(big.Int).Add(t.Val, big.NewInt(1))
	if v.BitLen() > 0 && new(big.Int).And(v, t.Val).Sign() == 0 {
		return int64(v.BitLen() - 1), true
	}
	return 0, false
}

// goDiv / goRem: Go's truncated division in terms of SMT's Euclidean div/mod.
func goDiv(a, b *Term) *Term {
	ra, rb := rangeOf(a), rangeOf(b)
	if ra.lo != nil && ra.lo.Sign() >= 0 && rb.lo != nil && rb.lo.Sign() > 0 {
		return Div(a, b)
	}
	return Ite(Ge(a, Int(0)), Div(a, b), Neg(Div(Neg(a), b)))
}

func goRem(a, b *Term) *Term {
	ra, rb := rangeOf(a), rangeOf(b)
	if ra.lo != nil && ra.lo.Sign() >= 0 && rb.lo != nil && rb.lo.Sign() > 0 {
		return Mod(a, b)
	}
	return Ite(Ge(a, Int(0)), Mod(a, b), Neg(Mod(Neg(a), b)))
}

func isNilConst(v ssa.Value) bool {
	c, ok := v.(*ssa.Const)
	if !ok || c.Value != nil {
		return false
	}
	switch c.Type().Underlying().(type) {
	case *types.Pointer, *types.Slice, *types.Interface, *types.Map, *types.Signature, *types.Chan:
		return true
	}
	if b, ok := c.Type().Underlying().(*types.Basic); ok && b.Kind() == types.UntypedNil {
		return true
	}
	return false
}

func isNilTerm(v Value) *Term {
	switch vv := v.(type) {
	case Ptr:
		if vv.Glob != nil {
			return tFalse
		}
		return Eq(vv.R, Int(0))
	case Sl:
		if vv.Loc != nil {
			return tFalse
		}
		return Eq(vv.R, Int(0))
	case If:
		return Eq(vv.Tag, Int(0))
	case Fn:
		return Eq(vv.T, Int(0))
	case Sc:
		return Eq(vv.T, Int(0))
	case MapV:
		return Eq(vv.Ref, Int(0))
	}
	panic(fmt.Sprintf("isNil on %T", v))
}

func (x *Exec) goEq(a, b Value, t types.Type) *Term {
	switch av := a.(type) {
	case Sc:
		return Eq(av.T, scT(b))
	case Fn:
		return Eq(av.T, scT(b))
	case If:
		bv := b.(If)
		return And(Eq(av.Tag, bv.Tag), Eq(av.Pl, bv.Pl))
	case Ptr:
		bv := b.(Ptr)
		if av.Glob != nil || bv.Glob != nil {
			return Bool(av.Glob == bv.Glob)
		}
		return And(Eq(av.R, bv.R), Eq(av.I, bv.I))
	case Ar:
		// Go's == on a fixed-size array compares its N elements. (The SMT arrays that stand for them are total;
		// comparing them with = would also compare what lies outside 0..N-1, which nothing constrains.)
		if av.N > 0 && av.N <= 64 {
			bv := b.(Ar)
			var cs []*Term
			for k := int64(0); k < av.N; k++ {
				cs = append(cs, Eq(Select(av.A, Int(k)), Select(bv.A, Int(k))))
			}
			return And(cs...)
		}
		return Eq(av.A, b.(Ar).A)
	case St:
		bv := b.(St)
		stt := t.Underlying().(*types.Struct)
		var cs []*Term
		for k := range av.F {
			cs = append(cs, x.goEq(av.F[k], bv.F[k], stt.Field(k).Type()))
		}
		return And(cs...)
	}
	panic(unsupported(fmt.Sprintf("== on %T", a)))
}

func (x *Exec) convert(st *State, v Value, from, to types.Type, pos token.Pos) Value {
	fu, tu := from.Underlying(), to.Underlying()
	if fb, ok := fu.(*types.Basic); ok {
		if tb, ok := tu.(*types.Basic); ok {
			if fb.Info()&types.IsInteger != 0 && tb.Info()&types.IsInteger != 0 {
				if x.bv {
					return Sc{bvResize(scT(v), bitsOf(from), bitsOf(to), isUnsigned(from))}
				}
				return Sc{x.wrap(scT(v), to)}
			}
			if fb.Info()&types.IsString != 0 && tb.Info()&types.IsString != 0 {
				return v
			}
			if fb.Info()&types.IsInteger != 0 && tb.Info()&types.IsString != 0 {
				return Sc{Sym(fresh("str"), SInt)}
			}
			if tb.Info()&types.IsFloat != 0 || fb.Info()&types.IsFloat != 0 {
				return Sc{Sym(fresh("float"), SInt)}
			}
		}
		// string -> []byte
		if fb.Info()&types.IsString != 0 {
			if ts, ok := tu.(*types.Slice); ok {
				declareFun("strlen", "(declare-fun strlen (Int) Int)")
				declareFun("strbytes", "(declare-fun strbytes (Int) (Array Int Int))")
				s := scT(v)
				r := st.allocRegion("bytes")
				name := familyName(ts.Elem(), "")
				fam := st.heap.family(name, SInt)
				st.heap.fam[name] = Store(fam, r, App("strbytes", SArr, s))
				l := App("strlen", SInt, s)
				st.assume(Ge(l, Int(0)))
				return Sl{R: r, O: Int(0), L: l, C: l, Elem: ts.Elem()}
			}
		}
	}
	if _, ok := fu.(*types.Slice); ok {
		if tb, ok := tu.(*types.Basic); ok && tb.Info()&types.IsString != 0 {
			// []byte -> string: abstract string value of the bytes
			sl := v.(Sl)
			declareFun("strof", "(declare-fun strof ((Array Int Int) Int Int) Int)")
			declareFun("strlen", "(declare-fun strlen (Int) Int)")
			arr := x.contentArray(st, st.heap, sl)
			s := App("strof", SInt, arr, sl.O, sl.L)
			st.assume(Eq(App("strlen", SInt, s), sl.L))
			return Sc{s}
		}
	}
	if _, ok := tu.(*types.Pointer); ok {
		return retype(v, to)
	}
	panic(unsupported(fmt.Sprintf("convert %s -> %s", from, to)))
}

// contentArray returns the (Array Int Int)-like content array of a slice's backing store (scalar elements).
func (x *Exec) contentArray(st *State, h *Heap, sl Sl) *Term {
	if sl.Arr != nil {
		return sl.Arr
	}
	if sl.Loc != nil {
		return st.load(h, *sl.Loc, false).(Ar).A
	}
	s, _, ok := scalarSort(sl.Elem)
	if !ok {
		panic(unsupported("content array of non-scalar slice"))
	}
	return Select(h.family(familyName(sl.Elem, ""), s), sl.R)
}

func (x *Exec) makeIface(st *State, v Value, t types.Type) Value {
	if _, ok := t.Underlying().(*types.Interface); ok {
		return v
	}
	tag := Int(x.p.typeID(t))
	var pl *Term
	switch vv := v.(type) {
	case Ptr:
		if vv.Glob != nil {
			pl = Int(x.p.strID("glob:" + vv.Glob.String()))
		} else {
			pl = vv.R
		}
	case Sc:
		if vv.T.Sort == SInt {
			pl = vv.T
		} else {
			pl = Ite(vv.T, Int(1), Int(0))
		}
	case Fn:
		pl = vv.T
	default:
		pl = Sym(fresh("box"), SInt)
	}
	return If{Tag: tag, Pl: pl, Dyn: t, DynVal: v}
}

func (x *Exec) typeAssert(st *State, fr *Frame, i *ssa.TypeAssert) Value {
	iv := x.val(st, fr, i.X).(If)
	at := i.AssertedType
	_, toIface := at.Underlying().(*types.Interface)
	var ok *Term
	var res Value
	if toIface {
		if iv.Dyn != nil {
			ok = Bool(types.Implements(iv.Dyn, at.Underlying().(*types.Interface)))
		} else {
			// whether a dynamic type implements an interface is a function of the type (tag) only
			declareFun("ifaceimpl", "(declare-fun ifaceimpl (Int Int) Bool)")
			ok = And(Not(Eq(iv.Tag, Int(0))), App("ifaceimpl", SBool, Int(x.p.strID("iface:"+types.TypeString(at, nil))), iv.Tag))
		}
		res = iv
	} else {
		ok = Eq(iv.Tag, Int(x.p.typeID(at)))
		if iv.Dyn != nil && types.Identical(iv.Dyn, at) && iv.DynVal != nil {
			res = iv.DynVal
		} else {
			switch u := at.Underlying().(type) {
			case *types.Pointer:
				res = Ptr{R: iv.Pl, I: Int(0), Root: u.Elem(), Elem: u.Elem()}
			default:
				if _, _, sc := scalarSort(at); sc {
					res = Sc{iv.Pl}
				} else {
					res = st.freshValue(fresh("unboxed"), at)
				}
			}
		}
	}
	if i.CommaOk {
		return Tup{res, Sc{ok}}
	}
	x.safe(st, "typeassert", i.Pos(), "type assertion holds", ok)
	if pv, isP := res.(Ptr); isP && !toIface {
		st.assume(Gt(pv.R, Int(-1)))
	}
	return res
}

func (x *Exec) indexAddr(st *State, fr *Frame, i *ssa.IndexAddr) Value {
	base := x.val(st, fr, i.X)
	idx := scT(x.val(st, fr, i.Index))
	switch b := base.(type) {
	case Sl:
		x.safe(st, "index", i.Pos(), "slice index in range", And(Le(Int(0), idx), Lt(idx, b.L)))
		if b.Loc != nil {
			np := *b.Loc
			np.Path = append(append([]pathElem(nil), np.Path...), pathElem{Index: Add(b.O, idx)})
			np.Elem = b.Elem
			return np
		}
		return Ptr{R: b.R, I: Add(b.O, idx), Root: b.Elem, Elem: b.Elem}
	case Ptr:
		at := b.Elem.Underlying().(*types.Array)
		x.nilCheck(st, b, i.Pos(), "index of nil array pointer")
		x.safe(st, "index", i.Pos(), "array index in range", And(Le(Int(0), idx), Lt(idx, Int(at.Len()))))
		if b.ArrRegion {
			return Ptr{R: b.R, I: Add(b.I, idx), Root: b.Root, Elem: at.Elem()}
		}
		np := b
		np.Path = append(append([]pathElem(nil), b.Path...), pathElem{Index: idx})
		np.Elem = at.Elem()
		return np
	}
	panic(unsupported(fmt.Sprintf("IndexAddr on %T", base)))
}

func (x *Exec) slice(st *State, fr *Frame, i *ssa.Slice) Value {
	base := x.val(st, fr, i.X)
	get := func(v ssa.Value) *Term {
		if v == nil {
			return nil
		}
		return scT(x.val(st, fr, v))
	}
	lo, hi, mx := get(i.Low), get(i.High), get(i.Max)
	switch b := base.(type) {
	case Sl:
		if lo == nil {
			lo = Int(0)
		}
		if hi == nil {
			hi = b.L
		}
		capT := b.C
		if mx != nil {
			x.safe(st, "slice", i.Pos(), "slice bounds: 0 <= lo <= hi <= max <= cap", And(Le(Int(0), lo), Le(lo, hi), Le(hi, mx), Le(mx, b.C)))
			capT = mx
		} else {
			x.safe(st, "slice", i.Pos(), "slice bounds: 0 <= lo <= hi <= cap", And(Le(Int(0), lo), Le(lo, hi), Le(hi, b.C)))
		}
		x.strictView(st, b, hi, i)
		return Sl{R: b.R, O: Add(b.O, lo), L: Sub(hi, lo), C: Sub(capT, lo), Elem: b.Elem, Loc: b.Loc, View: b.View, Arr: b.Arr}
	case Ptr:
		at := b.Elem.Underlying().(*types.Array)
		n := Int(at.Len())
		if lo == nil {
			lo = Int(0)
		}
		if hi == nil {
			hi = n
		}
		capT := n
		if mx != nil {
			capT = mx
		}
		x.nilCheck(st, b, i.Pos(), "slice of nil array pointer")
		x.safe(st, "slice", i.Pos(), "array slice bounds", And(Le(Int(0), lo), Le(lo, hi), Le(hi, capT), Le(capT, n)))
		if b.ArrRegion {
			return Sl{R: b.R, O: Add(b.I, lo), L: Sub(hi, lo), C: Sub(capT, lo), Elem: at.Elem()}
		}
		loc := b
		return Sl{R: Int(-1), O: lo, L: Sub(hi, lo), C: Sub(capT, lo), Elem: at.Elem(), Loc: &loc}
	case Sc:
		// string slicing: opaque
		declareFun("substr", "(declare-fun substr (Int Int Int) Int)")
		declareFun("strlen", "(declare-fun strlen (Int) Int)")
		if lo == nil {
			lo = Int(0)
		}
		if hi == nil {
			hi = App("strlen", SInt, b.T)
		}
		x.safe(st, "slice", i.Pos(), "string slice bounds", And(Le(Int(0), lo), Le(lo, hi), Le(hi, App("strlen", SInt, b.T))))
		sub := App("substr", SInt, b.T, lo, hi)
		st.assume(Eq(App("strlen", SInt, sub), Sub(hi, lo)))
		return Sc{sub}
	}
	panic(unsupported(fmt.Sprintf("Slice on %T", base)))
}

// strictView: for slices that are attribute-value views, re-slicing beyond len
// reads a neighbour attribute or memory beyond the message (C07 locality).
func (x *Exec) strictView(st *State, b Sl, hi *Term, i *ssa.Slice) {
	if x.fc == nil || !x.fc.AllProps["C07"] || !b.View {
		return
	}
	x.oblige(st, "safety-strictview", x.pos(i.Pos()), "re-slice of an attribute value stays within its length", []string{"C07"}, Le(hi, b.L))
}

// storeChecked performs frame and guard duties, then stores.
func (x *Exec) storeChecked(st *State, pv Ptr, v Value, pos token.Pos) {
	if pv.Glob != nil {
		panic(unsupported("store to global " + pv.Glob.Name()))
	}
	x.nilCheck(st, pv, pos, "store through nil pointer")
	x.guardCheck(st, pv, pos, "write")
	x.frameDuty(st, pv.Root, pv.R, pv.I, pv.Path, pos, "store")
	st.store(pv, v)
}

func (x *Exec) ret(st *State, fr *Frame, res Value, pos token.Pos) bool {
	if fr.parent != nil {
		// inlined callee: continue in the caller
		st.top = fr.parent
		st.depth--
		if fr.call != nil {
			if v, ok := fr.call.(ssa.Value); ok {
				st.top.env[v] = res
			}
		}
		return false
	}
	x.checkPost(st, fr, res, pos)
	return true
}

// jump transfers control, handling loop headers and phis.
func (x *Exec) jump(st *State, fr *Frame, to *ssa.BasicBlock) bool {
	from := fr.block
	fi := fr.info
	if ord, isHeader := fi.headers[to.Index]; isHeader {
		if fi.backEdges[[2]int{from.Index, to.Index}] {
			x.loopBack(st, fr, from, to, ord)
			return true
		}
		x.loopEnter(st, fr, from, to, ord)
		fr.prev, fr.block, fr.idx = from, to, 0
		return st.dead
	}
	x.bindPhis(st, fr, from, to)
	fr.prev, fr.block, fr.idx = from, to, 0
	return false
}

func (x *Exec) bindPhis(st *State, fr *Frame, from, to *ssa.BasicBlock) {
	var pidx int = -1
	for k, p := range to.Preds {
		if p == from {
			pidx = k
		}
	}
	var phis []*ssa.Phi
	var vals []Value
	for _, ins := range to.Instrs {
		ph, ok := ins.(*ssa.Phi)
		if !ok {
			break
		}
		phis = append(phis, ph)
		vals = append(vals, x.val(st, fr, ph.Edges[pidx]))
	}
	for k, ph := range phis {
		fr.env[ph] = vals[k]
		if ph.Comment != "" {
			fr.names[ph.Comment] = vals[k]
		}
	}
}

// feasible: false only when the solver proves hyps && cond contradictory quickly
// (pruning an infeasible branch is sound: no execution takes it).
func (x *Exec) feasible(st *State, cond *Term) bool {
	if noPrune {
		return true
	}
	var hyps []*Term
	for _, h := range st.hyps {
		if !isQuantified(h) {
			hyps = append(hyps, h)
		}
	}
	hyps = append(hyps, cond)
	txt := smtFile(hyps, tFalse, "", false, "")
	x.nfeas++
	f := filepath.Join(smtDir, fmt.Sprintf("feas_%s_%d.smt2", obFileName(x.key), x.nfeas))
	_ = os.WriteFile(f, []byte(txt), 0o644)
	stt, _, _ := runSolverMs(solvers[0], f, 300)
	os.Remove(f)
	if stt == "unsat" {
		x.pruned++
		return false
	}
	return true
}

var noPrune bool
