package main

import (
	"fmt"
	"go/token"
	"go/types"

	"golang.org/x/tools/go/ssa"
)

func (x *Exec) builtin(st *State, fr *Frame, name string, cc *ssa.CallCommon, args []Value, instr ssa.Instruction, pos token.Pos) Value {
	var rt types.Type
	if v, ok := instr.(ssa.Value); ok {
		rt = v.Type()
	}
	return x.builtinVals(st, fr, name, args, rt, pos)
}

func (x *Exec) builtinVals(st *State, fr *Frame, name string, args []Value, rt types.Type, pos token.Pos) Value {
	switch name {
	case "len":
		switch a := args[0].(type) {
		case Sl:
			return Sc{a.L}
		case Sc: // string
			declareFun("strlen", "(declare-fun strlen (Int) Int)")
			l := App("strlen", SInt, a.T)
			st.assume(Ge(l, Int(0)))
			if a.T.IsInt() {
				for s, id := range x.p.strIDs {
					if id == a.T.Val.Int64() {
						return Sc{Int(int64(len(s)))}
					}
				}
				if a.T.Val.Sign() == 0 {
					return Sc{Int(0)}
				}
			}
			return Sc{l}
		case MapV:
			return Sc{x.mapLen(st.heap, a)}
		case Ar:
			return Sc{Int(a.N)}
		}
	case "cap":
		switch a := args[0].(type) {
		case Sl:
			return Sc{a.C}
		case Ar:
			return Sc{Int(a.N)}
		}
	case "append":
		return x.doAppend(st, args[0].(Sl), args[1], pos)
	case "copy":
		return x.doCopy(st, args[0].(Sl), args[1], pos)
	case "delete":
		x.mapDelete(st, args[0].(MapV), args[1], pos)
		return nil
	case "close":
		x.ghostEvent(st, "close", x.pos(pos))
		x.chanClose(st, args[0], pos)
		return nil
	case "min", "max":
		a, b := scT(args[0]), scT(args[1])
		if name == "min" {
			return Sc{Ite(Le(a, b), a, b)}
		}
		return Sc{Ite(Ge(a, b), a, b)}
	case "print", "println":
		return nil
	}
	panic(unsupported("builtin " + name))
}

// rangeWrite returns the array equal to dstOld except [lo, lo+n) := src[srcLo, srcLo+n).
func (x *Exec) rangeWrite(st *State, dstOld *Term, lo, n *Term, src *Term, srcLo *Term) *Term {
	if n.IsInt() && n.Val.IsInt64() && n.Val.Int64() <= 64 {
		a := dstOld
		for k := int64(0); k < n.Val.Int64(); k++ {
			a = Store(a, Add(lo, Int(k)), Select(src, Add(srcLo, Int(k))))
		}
		return a
	}
	na := Sym(fresh("arr"), dstOld.Sort)
	i := Sym(fresh("i"), SInt)
	body := Eq(Select(na, i), Ite(And(Le(lo, i), Lt(i, Add(lo, n))), Select(src, Add(srcLo, Sub(i, lo))), Select(dstOld, i)))
	st.assume(Forall([]*Term{i}, body, Select(na, i)))
	return na
}

// sliceOrString views a source operand of append/copy as (content array per leaf family accessor, offset, length).
type srcView struct {
	off, n *Term
	arr    func(leafPath, sort string) *Term
}

func (x *Exec) srcOf(st *State, v Value, elem types.Type) srcView {
	switch s := v.(type) {
	case Sl:
		if s.Loc != nil {
			a := st.load(st.heap, *s.Loc, false).(Ar).A
			return srcView{off: s.O, n: s.L, arr: func(string, string) *Term { return a }}
		}
		h := st.heap.clone() // snapshot: reads happen before writes (memmove semantics)
		return srcView{off: s.O, n: s.L, arr: func(lp, sort string) *Term {
			return Select(h.family(familyName(s.Elem, lp), sort), s.R)
		}}
	case Sc: // string
		declareFun("strlen", "(declare-fun strlen (Int) Int)")
		declareFun("strbytes", "(declare-fun strbytes (Int) (Array Int Int))")
		n := App("strlen", SInt, s.T)
		st.assume(Ge(n, Int(0)))
		a := App("strbytes", SArr, s.T)
		return srcView{off: Int(0), n: n, arr: func(string, string) *Term { return a }}
	}
	panic(unsupported(fmt.Sprintf("append/copy source %T", v)))
}

func (x *Exec) doAppend(st *State, s Sl, add Value, pos token.Pos) Value {
	if s.Loc != nil {
		panic(unsupported("append to array-backed slice"))
	}
	src := x.srcOf(st, add, s.Elem)
	n := src.n
	newLen := Add(s.L, n)
	if n.IsInt() && n.Val.Sign() == 0 {
		return s
	}
	inplace := Le(newLen, s.C)
	fr := st.allocRegion("append")
	nr := Ite(inplace, s.R, fr)
	nc := Sym(fresh("cap"), SInt)
	st.assume(Ge(nc, newLen))
	ncap := Ite(inplace, s.C, nc)
	// frame duty only for the in-place case (a fresh region is always writable)
	if !(n.IsInt() && n.Val.Sign() == 0) {
		st2 := st
		x.obligeUnder(st2, inplace, func() {
			x.frameDutyRangeWrite(st2, s.Elem, s.R, Add(s.O, s.L), Add(Add(s.O, s.L), n), pos, "in-place append")
		})
	}
	walkType(s.Elem, "", func(lf leaf, _ types.Type, _ string) {
		name := familyName(s.Elem, lf.path)
		fam := st.heap.family(name, lf.sort)
		oldArr := Select(fam, s.R)
		na := x.rangeWrite(st, oldArr, Add(s.O, s.L), n, src.arr(lf.path, lf.sort), src.off)
		st.heap.fam[name] = Store(fam, nr, na)
	})
	res := Sl{R: nr, O: s.O, L: newLen, C: ncap, Elem: s.Elem}
	st.assume(Le(res.L, res.C))
	return res
}

// obligeUnder runs f with cond temporarily assumed (obligations generated inside carry it).
func (x *Exec) obligeUnder(st *State, cond *Term, f func()) {
	if cond.IsFalse() {
		return
	}
	saveH, saveS, dead := st.hyps, st.hypSet, st.dead
	st.hyps = append([]*Term(nil), st.hyps...)
	ns := make(map[string]bool, len(saveS))
	for k := range saveS {
		ns[k] = true
	}
	st.hypSet = ns
	st.assume(cond)
	f()
	st.hyps, st.hypSet, st.dead = saveH, saveS, dead
}

func (x *Exec) frameDutyRangeWrite(st *State, elem types.Type, r, lo, hi *Term, pos token.Pos, what string) {
	x.frameDutyRange(st, loc{rng: true, root: elem, r: r, lo: lo, hi: hi}, pos, what)
}

func (x *Exec) frameDutyRegionWrite(st *State, elem types.Type, r *Term, pos token.Pos, what string) {
	x.frameDutyRegion(st, elem, r, pos, what)
}

func (x *Exec) doCopy(st *State, dst Sl, srcV Value, pos token.Pos) Value {
	src := x.srcOf(st, srcV, dst.Elem)
	var n *Term
	switch {
	case same(dst.L, src.n):
		n = dst.L
	case dst.L.IsInt() && src.n.IsInt():
		if dst.L.Val.Cmp(src.n.Val) <= 0 {
			n = dst.L
		} else {
			n = src.n
		}
	default:
		n = Ite(Le(dst.L, src.n), dst.L, src.n)
	}
	if dst.Loc != nil {
		av := st.load(st.heap, *dst.Loc, false).(Ar)
		na := x.rangeWrite(st, av.A, dst.O, n, src.arr("", SInt), src.off)
		x.storeChecked(st, *dst.Loc, Ar{A: na, N: av.N, Elem: av.Elem}, pos)
		return Sc{n}
	}
	if !(n.IsInt() && n.Val.Sign() == 0) {
		x.obligeUnder(st, Gt(n, Int(0)), func() {
			x.frameDutyRangeWrite(st, dst.Elem, dst.R, dst.O, Add(dst.O, n), pos, "copy destination")
		})
	}
	walkType(dst.Elem, "", func(lf leaf, _ types.Type, _ string) {
		name := familyName(dst.Elem, lf.path)
		fam := st.heap.family(name, lf.sort)
		oldArr := Select(fam, dst.R)
		na := x.rangeWrite(st, oldArr, dst.O, n, src.arr(lf.path, lf.sort), src.off)
		st.heap.fam[name] = Store(fam, dst.R, na)
	})
	return Sc{n}
}
