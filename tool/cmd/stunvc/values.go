package main

import (
	"fmt"
	"go/types"
	"math/big"
	"strings"

	"golang.org/x/tools/go/ssa"
)

// ---- symbolic values ----

type Value interface{}

// Sc is a scalar (Int or Bool sorted). Strings, funcs, chans, maps, opaque
// library structs are Int-sorted identities.
type Sc struct{ T *Term }

// Sl is a slice header. Loc != nil means the slice is a view of an
// array-valued location (e.g. m.TransactionID[:]); then R is unused.
type Sl struct {
	R, O, L, C *Term
	Elem       types.Type
	Loc        *Ptr
	Arr        *Term // content array override (spec-level byte strings); nil normally
	View       bool  // an attribute-value view into a message buffer (C07 strict-view duty)
}

// St is a struct value (fields in declaration order).
type St struct {
	Typ types.Type
	F   []Value
}

// Ar is a fixed array of scalars as an SMT array value.
type Ar struct {
	A    *Term
	N    int64
	Elem types.Type
}

// If is an interface value: dynamic type tag and payload. nil iff Tag == 0.
type If struct {
	Tag, Pl *Term
	Dyn     types.Type // statically known dynamic type (or nil)
	DynVal  Value      // the wrapped value if known
}

// Ptr is a pointer, resolved generator-side.
type Ptr struct {
	Glob *ssa.Global
	R, I *Term      // heap object: region, index
	Root types.Type // type of the region's elements (what R,I addresses)
	Path []pathElem // path inside the root to the pointee
	Elem types.Type // pointee type
	// ArrRegion: the pointee is an array [N]Root laid out as elements I..I+N-1 of region R.
	ArrRegion bool
}

type pathElem struct {
	Field int   // >=0: struct field index
	Index *Term // non-nil: array index inside an array leaf
}

type Tup []Value

// Fn is a function value.
type Fn struct {
	Fn   *ssa.Function
	Bind []Value
	T    *Term // identity; 0 == nil
}

// ---- type naming ----

var canonNames = map[string]string{}
var canonUsed = map[string]bool{}

// localType marks the storage of a local variable whose address never leaves its function (only loaded, stored and
// field/element-addressed): it gets heap families of its own, so that writing the local does not appear as a store
// in the families of the heap objects of the same type (reads of those then keep their syntactic shape).
type localType struct {
	T   types.Type
	Tag string
}

func (l *localType) Underlying() types.Type { return l.T.Underlying() }
func (l *localType) String() string         { return "local:" + l.Tag + ":" + l.T.String() }

func canon(t types.Type) string {
	if lt, ok := t.(*localType); ok {
		return "L" + lt.Tag + "." + canon(lt.T)
	}
	u := t.Underlying()
	key := types.TypeString(u, nil)
	if n, ok := canonNames[key]; ok {
		return n
	}
	var name string
	switch uu := u.(type) {
	case *types.Basic:
		name = uu.Name()
		if name == "byte" {
			name = "uint8"
		}
	case *types.Struct:
		if nt, ok := t.(*types.Named); ok {
			name = nt.Obj().Name()
		} else {
			name = fmt.Sprintf("struct%d", len(canonNames))
		}
	case *types.Slice:
		name = "sl_" + canon(uu.Elem())
	case *types.Array:
		name = fmt.Sprintf("a%d_%s", uu.Len(), canon(uu.Elem()))
	case *types.Pointer:
		name = "p_" + canon(uu.Elem())
	case *types.Interface:
		name = "iface"
	case *types.Map:
		name = "map_" + canon(uu.Key()) + "_" + canon(uu.Elem())
	case *types.Signature:
		name = "func"
	case *types.Chan:
		name = "chan"
	default:
		name = fmt.Sprintf("t%d", len(canonNames))
	}
	base := name
	for i := 2; canonUsed[name]; i++ {
		name = fmt.Sprintf("%s_%d", base, i)
	}
	canonUsed[name] = true
	canonNames[key] = name
	return name
}

var opaqueTypes = map[string]bool{
	"sync.Mutex": true, "sync.RWMutex": true, "sync.WaitGroup": true, "sync.Once": true,
	"sync.Cond": true, "sync.Pool": true, "time.Time": true, "crypto/tls.Config": true,
	"github.com/pion/dtls/v3.Config": true, "time.Ticker": true, "sync/atomic.Int32": true,
	"net.UDPAddr": true,
}

func isOpaque(t types.Type) bool {
	if n, ok := t.(*types.Named); ok && n.Obj().Pkg() != nil {
		return opaqueTypes[n.Obj().Pkg().Path()+"."+n.Obj().Name()]
	}
	return false
}

// ---- leaves ----

type leaf struct {
	path string
	sort string
	rng  *interval
}

func intRange(b *types.Basic) *interval {
	mk := func(lo, hi *big.Int) *interval { return &interval{lo, hi} }
	p2 := func(n uint) *big.Int { return new(big.Int).Lsh(big.NewInt(1), n) }
	m1 := func(x *big.Int) *big.Int { return new(big.Int).Sub(x, big.NewInt(1)) }
	switch b.Kind() {
	case types.Uint8:
		return mk(big.NewInt(0), m1(p2(8)))
	case types.Uint16:
		return mk(big.NewInt(0), m1(p2(16)))
	case types.Uint32:
		return mk(big.NewInt(0), m1(p2(32)))
	case types.Uint64, types.Uint, types.Uintptr:
		return mk(big.NewInt(0), m1(p2(64)))
	case types.Int8:
		return mk(new(big.Int).Neg(p2(7)), m1(p2(7)))
	case types.Int16:
		return mk(new(big.Int).Neg(p2(15)), m1(p2(15)))
	case types.Int32:
		return mk(new(big.Int).Neg(p2(31)), m1(p2(31)))
	}
	return nil
}

// bvMode: integers are bit-vectors of their Go width (set while verifying a "mode bv" function).
var bvMode bool

func scalarSort(t types.Type) (string, *interval, bool) {
	if lt, ok := t.(*localType); ok {
		return scalarSort(lt.T)
	}
	if isOpaque(t) {
		return SInt, nil, true
	}
	switch u := t.Underlying().(type) {
	case *types.Basic:
		switch {
		case u.Info()&types.IsBoolean != 0:
			return SBool, nil, true
		case u.Info()&types.IsInteger != 0:
			if bvMode {
				return bvSort(bitsOf(t)), nil, true
			}
			return SInt, intRange(u), true
		case u.Info()&types.IsString != 0:
			return SInt, nil, true
		case u.Kind() == types.UnsafePointer:
			return SInt, nil, true
		case u.Info()&types.IsFloat != 0:
			return SInt, nil, true // not interpreted
		case u.Kind() == types.UntypedNil:
			return SInt, nil, true
		}
	case *types.Signature, *types.Map, *types.Chan:
		return SInt, nil, true
	}
	return "", nil, false
}

// walkType visits the leaves of t in a fixed order.
func walkType(t types.Type, path string, f func(l leaf, t types.Type, part string)) {
	if s, r, ok := scalarSort(t); ok {
		f(leaf{path, s, r}, t, "")
		return
	}
	switch u := t.Underlying().(type) {
	case *types.Slice:
		for _, p := range []string{"$r", "$o", "$l", "$c"} {
			f(leaf{path + p, SInt, nil}, t, p)
		}
	case *types.Pointer:
		f(leaf{path + "$p", SInt, nil}, t, "$p")
	case *types.Interface:
		f(leaf{path + "$t", SInt, nil}, t, "$t")
		f(leaf{path + "$v", SInt, nil}, t, "$v")
	case *types.Array:
		if s, _, ok := scalarSort(u.Elem()); ok {
			f(leaf{path + "$a", arrSort(SInt, s), nil}, t, "$a")
			return
		}
		panic(unsupported("array of non-scalars in memory: " + t.String()))
	case *types.Struct:
		for i := 0; i < u.NumFields(); i++ {
			p := u.Field(i).Name()
			if path != "" {
				p = path + "." + p
			}
			walkType(u.Field(i).Type(), p, f)
		}
	case *types.Tuple:
		for i := 0; i < u.Len(); i++ {
			walkType(u.At(i).Type(), fmt.Sprintf("%s.%d", path, i), f)
		}
	default:
		panic(unsupported("type in memory: " + t.String()))
	}
}

type unsupportedErr struct{ msg string }

func (u unsupportedErr) Error() string { return "unsupported: " + u.msg }
func unsupported(msg string) error     { return unsupportedErr{msg} }

// unflatten builds a Value of type t from leaf terms supplied by next.
func unflatten(t types.Type, path string, next func(l leaf) *Term) Value {
	if _, isMap := t.Underlying().(*types.Map); isMap {
		return newMapV(next(leaf{path, SInt, nil}), t)
	}
	if s, r, ok := scalarSort(t); ok {
		return Sc{next(leaf{path, s, r})}
	}
	switch u := t.Underlying().(type) {
	case *types.Slice:
		return Sl{R: next(leaf{path + "$r", SInt, nil}), O: next(leaf{path + "$o", SInt, nil}),
			L: next(leaf{path + "$l", SInt, nil}), C: next(leaf{path + "$c", SInt, nil}), Elem: u.Elem()}
	case *types.Pointer:
		return Ptr{R: next(leaf{path + "$p", SInt, nil}), I: Int(0), Root: u.Elem(), Elem: u.Elem()}
	case *types.Interface:
		return If{Tag: next(leaf{path + "$t", SInt, nil}), Pl: next(leaf{path + "$v", SInt, nil})}
	case *types.Array:
		if s, _, ok := scalarSort(u.Elem()); ok {
			return Ar{A: next(leaf{path + "$a", arrSort(SInt, s), nil}), N: u.Len(), Elem: u.Elem()}
		}
		panic(unsupported("array of non-scalars: " + t.String()))
	case *types.Struct:
		sv := St{Typ: t}
		for i := 0; i < u.NumFields(); i++ {
			p := u.Field(i).Name()
			if path != "" {
				p = path + "." + p
			}
			sv.F = append(sv.F, unflatten(u.Field(i).Type(), p, next))
		}
		return sv
	case *types.Tuple:
		var tv Tup
		for i := 0; i < u.Len(); i++ {
			tv = append(tv, unflatten(u.At(i).Type(), fmt.Sprintf("%s.%d", path, i), next))
		}
		return tv
	}
	panic(unsupported("unflatten type " + t.String()))
}

// flatten emits the leaf terms of v (of type t) in walkType order.
func flatten(v Value, t types.Type, path string, emit func(l leaf, x *Term)) {
	if s, r, ok := scalarSort(t); ok {
		switch vv := v.(type) {
		case Sc:
			emit(leaf{path, s, r}, vv.T)
		case Fn:
			emit(leaf{path, s, r}, vv.T)
		case MapV:
			emit(leaf{path, s, r}, vv.Ref)
		default:
			panic(fmt.Sprintf("flatten: scalar type %s got %T", t, v))
		}
		return
	}
	switch u := t.Underlying().(type) {
	case *types.Slice:
		sv := v.(Sl)
		if sv.Loc != nil {
			panic(unsupported("array-backed slice stored to memory"))
		}
		emit(leaf{path + "$r", SInt, nil}, sv.R)
		emit(leaf{path + "$o", SInt, nil}, sv.O)
		emit(leaf{path + "$l", SInt, nil}, sv.L)
		emit(leaf{path + "$c", SInt, nil}, sv.C)
	case *types.Pointer:
		pv := v.(Ptr)
		if pv.Glob != nil || len(pv.Path) != 0 || pv.I == nil || !pv.I.IsInt() || pv.I.Val.Sign() != 0 {
			panic(unsupported("interior/local pointer stored to memory"))
		}
		emit(leaf{path + "$p", SInt, nil}, pv.R)
	case *types.Interface:
		iv := v.(If)
		emit(leaf{path + "$t", SInt, nil}, iv.Tag)
		emit(leaf{path + "$v", SInt, nil}, iv.Pl)
	case *types.Array:
		av := v.(Ar)
		emit(leaf{path + "$a", av.A.Sort, nil}, av.A)
	case *types.Struct:
		sv := v.(St)
		for i := 0; i < u.NumFields(); i++ {
			p := u.Field(i).Name()
			if path != "" {
				p = path + "." + p
			}
			flatten(sv.F[i], u.Field(i).Type(), p, emit)
		}
	case *types.Tuple:
		tv := v.(Tup)
		for i := 0; i < u.Len(); i++ {
			flatten(tv[i], u.At(i).Type(), fmt.Sprintf("%s.%d", path, i), emit)
		}
	default:
		panic(unsupported("flatten type " + t.String()))
	}
}

// zeroVal is the Go zero value of t.
func zeroVal(t types.Type) Value {
	return unflatten(t, "", func(l leaf) *Term {
		switch l.sort {
		case SBool:
			return tFalse
		case SInt:
			return Int(0)
		}
		if strings.HasPrefix(l.sort, "(_ BitVec") {
			return bvConst(big.NewInt(0), bvWidth(l.sort))
		}
		if strings.HasPrefix(l.sort, "(Array") {
			es := elemSort(l.sort)
			z := Int(0)
			if es == SBool {
				z = tFalse
			}
			return App("(as const "+l.sort+")", l.sort, z)
		}
		panic("zeroVal sort " + l.sort)
	})
}

// familyName of the heap family holding a leaf of a root type.
func familyName(root types.Type, leafPath string) string {
	n := "F." + canon(root)
	if leafPath != "" {
		if leafPath[0] == '$' {
			n += leafPath
		} else {
			n += "." + leafPath
		}
	}
	return n
}

// pathString renders a Ptr path as a leaf path prefix (array index excluded).
func pathString(root types.Type, path []pathElem) (string, types.Type, *Term) {
	t := root
	var parts []string
	var aidx *Term
	for _, pe := range path {
		if pe.Index != nil {
			at := t.Underlying().(*types.Array)
			t = at.Elem()
			aidx = pe.Index
			continue
		}
		st := t.Underlying().(*types.Struct)
		parts = append(parts, st.Field(pe.Field).Name())
		t = st.Field(pe.Field).Type()
	}
	return strings.Join(parts, "."), t, aidx
}

func joinPath(a, b string) string {
	switch {
	case a == "":
		return b
	case b == "":
		return a
	case b[0] == '$':
		return a + b
	}
	return a + "." + b
}

// eqVal: Go equality of two values of type t.
func eqVal(a, b Value, t types.Type) *Term {
	var cs []*Term
	var as, bs []*Term
	flatten(a, t, "", func(l leaf, x *Term) { as = append(as, x) })
	flatten(b, t, "", func(l leaf, x *Term) { bs = append(bs, x) })
	for i := range as {
		cs = append(cs, Eq(as[i], bs[i]))
	}
	return And(cs...)
}
