package main

import (
	"go/token"
	"go/types"

	"golang.org/x/tools/go/ssa"
)

// MapV is a Go map value: a reference; contents live in heap families keyed by the reference.
type MapV struct {
	Ref      *Term
	Key, Val types.Type
}

func (x *Exec) makeMap(st *State, t types.Type) Value           { panic(unsupported("maps")) }
func (x *Exec) lookup(st *State, fr *Frame, i *ssa.Lookup) Value { panic(unsupported("maps")) }
func (x *Exec) mapUpdate(st *State, fr *Frame, i *ssa.MapUpdate) { panic(unsupported("maps")) }
func (x *Exec) rangeStart(st *State, fr *Frame, i *ssa.Range) Value {
	panic(unsupported("range over map/string"))
}
func (x *Exec) rangeNext(st *State, fr *Frame, i *ssa.Next) Value  { panic(unsupported("maps")) }
func (x *Exec) mapRead(st *State, h *Heap, m MapV, k Value) Value  { panic(unsupported("maps")) }
func (x *Exec) mapLen(h *Heap, m MapV) *Term                       { panic(unsupported("maps")) }
func (x *Exec) havocMap(st *State, m MapV)                         { panic(unsupported("maps")) }
func (x *Exec) mapDelete(st *State, m MapV, k Value, p token.Pos)  { panic(unsupported("maps")) }
func (x *Exec) mapFrameDuty(st *State, m MapV, p token.Pos, w string) {
	panic(unsupported("maps"))
}
