package main

import (
	"strings"
	"fmt"
	"go/token"
	"go/types"

	"golang.org/x/tools/go/ssa"
)

// MapV is a Go map value: a reference; contents live in heap families keyed by
// the reference:  M.<type>.dom : ref -> key -> Bool,  M.<type>.val<leaf> : ref -> key -> leaf,
// M.<type>.len : ref -> Int (as region -> index 0).
type MapV struct {
	Ref       *Term
	Key, Val  types.Type
	Typ       types.Type
	Guard     *Term // region of the object whose mutex protects this map (nil: unguarded)
	GuardInfo *Guard
}

func mapTypeOf(t types.Type) *types.Map { return t.Underlying().(*types.Map) }

func keySort(k types.Type) string {
	if s, _, ok := scalarSort(k); ok {
		return s
	}
	if at, ok := k.Underlying().(*types.Array); ok {
		if s, _, ok := scalarSort(at.Elem()); ok {
			return arrSort(SInt, s)
		}
	}
	panic(unsupported("map key type " + k.String()))
}

func keyTerm(v Value) *Term {
	switch k := v.(type) {
	case Sc:
		return k.T
	case Ar:
		return k.A
	}
	panic(unsupported(fmt.Sprintf("map key value %T", v)))
}

func (m MapV) base() string { return "M." + canon(m.Typ) }

func (m MapV) domFam(h *Heap) (*Term, string) {
	name := m.base() + ".dom"
	if t, ok := h.fam[name]; ok {
		return t, name
	}
	t := Sym(name+"@0", arrSort(SInt, arrSort(keySort(m.Key), SBool)))
	h.fam[name] = t
	return t, name
}

func (m MapV) valFam(h *Heap, l leaf) (*Term, string) {
	name := m.base() + ".val" + pathSep(l.path)
	if t, ok := h.fam[name]; ok {
		return t, name
	}
	t := Sym(name+"@0", arrSort(SInt, arrSort(keySort(m.Key), l.sort)))
	h.fam[name] = t
	return t, name
}

func pathSep(p string) string {
	if p == "" {
		return ""
	}
	if p[0] == '$' {
		return p
	}
	return "." + p
}

func (m MapV) lenFam(h *Heap) (*Term, string) {
	name := m.base() + ".len"
	if t, ok := h.fam[name]; ok {
		return t, name
	}
	t := Sym(name+"@0", arrSort(SInt, SInt))
	h.fam[name] = t
	return t, name
}

func newMapV(ref *Term, t types.Type) MapV {
	mt := mapTypeOf(t)
	return MapV{Ref: ref, Key: mt.Key(), Val: mt.Elem(), Typ: t}
}

func (x *Exec) makeMap(st *State, t types.Type) Value {
	m := newMapV(st.allocRegion("map"), t)
	dom, dn := m.domFam(st.heap)
	ks := keySort(m.Key)
	st.heap.fam[dn] = Store(dom, m.Ref, App("(as const "+arrSort(ks, SBool)+")", arrSort(ks, SBool), tFalse))
	lf, ln := m.lenFam(st.heap)
	st.heap.fam[ln] = Store(lf, m.Ref, Int(0))
	return m
}

// has: key present.
func (x *Exec) mapHas(h *Heap, m MapV, k Value) *Term {
	if m.Ref.IsInt() && m.Ref.Val.Sign() == 0 {
		return tFalse // the nil map is empty
	}
	dom, _ := m.domFam(h)
	return Select(Select(dom, m.Ref), keyTerm(k))
}

func zeroOfSort(s string) *Term {
	switch {
	case s == SBool:
		return tFalse
	case s == SInt:
		return Int(0)
	}
	es := elemSort(s)
	return App("(as const "+s+")", s, zeroOfSort(es))
}

// mapRead: value stored under k (zero value if absent).
func (x *Exec) mapRead(st *State, h *Heap, m MapV, k Value) Value {
	has := x.mapHas(h, m, k)
	kt := keyTerm(k)
	v := unflatten(m.Val, "", func(l leaf) *Term {
		vf, vn := m.valFam(h, l)
		if strings.HasSuffix(l.path, "$r") || strings.HasSuffix(l.path, "$p") {
			// entry-heap well-formedness for map values: every pointer / slice region stored in a map at function
			// entry was allocated at entry (quantified over maps and keys)
			rv, kv := Sym("wf.r."+vn, SInt), Sym("wf.k."+vn, keySort(m.Key))
			e := Select(Select(Sym(vn+"@0", vf.Sort), rv), kv)
			st.assume(Forall([]*Term{rv, kv}, Select(Sym("alloc@0", SArrB), e), e))
		}
		return Ite(has, Select(Select(vf, m.Ref), kt), zeroOfSort(l.sort))
	})
	return v
}

func (x *Exec) mapLen(h *Heap, m MapV) *Term {
	lf, _ := m.lenFam(h)
	return Select(lf, m.Ref)
}

func (x *Exec) lookup(st *State, fr *Frame, i *ssa.Lookup) Value {
	xv := x.val(st, fr, i.X)
	m, ok := xv.(MapV)
	if !ok {
		sv, isStr := xv.(Sc)
		if !isStr {
			panic(unsupported(fmt.Sprintf("lookup on %T", xv)))
		}
		return x.stringIndex(st, fr, sv, scT(x.val(st, fr, i.Index)), i.Pos())
	}
	k := x.val(st, fr, i.Index)
	x.guardMap(st, m, i.Pos(), "read")
	v := x.mapRead(st, st.heap, m, k)
	if i.CommaOk {
		return Tup{v, Sc{x.mapHas(st.heap, m, k)}}
	}
	return v
}

func (x *Exec) mapUpdate(st *State, fr *Frame, i *ssa.MapUpdate) {
	m := x.val(st, fr, i.Map).(MapV)
	k := x.val(st, fr, i.Key)
	v := x.val(st, fr, i.Value)
	x.safe(st, "nilmap", i.Pos(), "assignment to entry in nil map", Not(Eq(m.Ref, Int(0))))
	x.guardMap(st, m, i.Pos(), "write")
	x.mapFrameDuty(st, m, i.Pos(), "map update")
	kt := keyTerm(k)
	has := x.mapHas(st.heap, m, k)
	dom, dn := m.domFam(st.heap)
	st.heap.fam[dn] = Store(dom, m.Ref, Store(Select(dom, m.Ref), kt, tTrue))
	flatten(v, m.Val, "", func(l leaf, t *Term) {
		vf, vn := m.valFam(st.heap, l)
		st.heap.fam[vn] = Store(vf, m.Ref, Store(Select(vf, m.Ref), kt, t))
	})
	lf, ln := m.lenFam(st.heap)
	st.heap.fam[ln] = Store(lf, m.Ref, Add(Select(lf, m.Ref), Ite(has, Int(0), Int(1))))
}

func (x *Exec) mapDelete(st *State, m MapV, k Value, pos token.Pos) {
	x.guardMap(st, m, pos, "write")
	x.mapFrameDuty(st, m, pos, "map delete")
	kt := keyTerm(k)
	has := x.mapHas(st.heap, m, k)
	dom, dn := m.domFam(st.heap)
	// delete on a nil map is a no-op: region 0 holds the empty map (assumed below)
	st.heap.fam[dn] = Store(dom, m.Ref, Store(Select(dom, m.Ref), kt, tFalse))
	lf, ln := m.lenFam(st.heap)
	st.heap.fam[ln] = Store(lf, m.Ref, Sub(Select(lf, m.Ref), Ite(has, Int(1), Int(0))))
}

func (x *Exec) havocMap(st *State, m MapV) {
	dom, dn := m.domFam(st.heap)
	ks := keySort(m.Key)
	st.heap.fam[dn] = Store(dom, m.Ref, Sym(fresh("hv."+dn), arrSort(ks, SBool)))
	walkType(m.Val, "", func(l leaf, _ types.Type, _ string) {
		vf, vn := m.valFam(st.heap, l)
		st.heap.fam[vn] = Store(vf, m.Ref, Sym(fresh("hv."+vn), arrSort(ks, l.sort)))
	})
	lf, ln := m.lenFam(st.heap)
	nl := Sym(fresh("hv."+ln), SInt)
	st.assume(Ge(nl, Int(0)))
	st.heap.fam[ln] = Store(lf, m.Ref, nl)
}

// mapFrameDuty: the map must be assignable by the function (assigns mem(<map>)) or fresh.
func (x *Exec) mapFrameDuty(st *State, m MapV, pos token.Pos, what string) {
	if isFreshSym(m.Ref) || x.fc == nil || !x.fc.HasAssigns {
		return
	}
	goal := Not(Select(st.old.alloc, m.Ref))
	for _, l := range x.entryLocs(st) {
		if l.all {
			goal = tTrue
		}
		if l.mapv != nil && canon(l.mapv.Typ) == canon(m.Typ) {
			goal = Or(goal, Eq(l.mapv.Ref, m.Ref))
		}
	}
	x.oblige(st, "frame", x.pos(pos), what+" stays inside the function's assigns clause", x.framePropsOr(), goal)
}

// ---- range over maps: ghost enumeration ----

// Iter is a map iterator (ssa.Range). seq enumerates the keys present when the
// range statement started: injective, covering exactly the domain; pos is ghost state.
type Iter struct {
	M    MapV
	Seq  *Term // (Array Int K)
	Idx  string
	N    *Term
	Name string
	Dom0 *Term // domain at range start
}

func (x *Exec) rangeStart(st *State, fr *Frame, i *ssa.Range) Value {
	xv := x.val(st, fr, i.X)
	m, ok := xv.(MapV)
	if !ok {
		panic(unsupported("range over string"))
	}
	x.guardMap(st, m, i.Pos(), "read")
	ks := keySort(m.Key)
	id := fresh("iter")
	it := Iter{M: m, Seq: Sym(id+".seq", arrSort(SInt, ks)), N: Sym(id+".n", SInt), Name: id, Idx: id + ".idx"}
	declareFun("|"+it.Idx+"|", fmt.Sprintf("(declare-fun |%s| (%s) Int)", it.Idx, ks))
	dom, _ := m.domFam(st.heap)
	it.Dom0 = Select(dom, m.Ref)
	st.assume(Ge(it.N, Int(0)))
	st.assume(Eq(it.N, x.mapLen(st.heap, m)))
	// every enumerated key is present, and idx inverts seq (=> injective)
	iv := Sym(fresh("i"), SInt)
	sel := Select(it.Seq, iv)
	st.assume(Forall([]*Term{iv}, Implies(And(Le(Int(0), iv), Lt(iv, it.N)),
		And(Select(it.Dom0, sel), Eq(App("|"+it.Idx+"|", SInt, sel), iv))), sel))
	// every present key is enumerated
	kv := Sym(fresh("k"), ks)
	idx := App("|"+it.Idx+"|", SInt, kv)
	st.assume(Forall([]*Term{kv}, Implies(Select(it.Dom0, kv),
		And(Le(Int(0), idx), Lt(idx, it.N), Eq(Select(it.Seq, idx), kv))), Select(it.Dom0, kv)))
	st.ghost[id+".pos"] = Int(0)
	fr.names["rangepos"] = Sc{Int(0)}
	return it
}

func (x *Exec) rangeNext(st *State, fr *Frame, i *ssa.Next) Value {
	it, ok := x.val(st, fr, i.Iter).(Iter)
	if !ok {
		panic(unsupported("next on non-map iterator"))
	}
	pos := st.ghost[it.Name+".pos"]
	okT := Lt(pos, it.N)
	k := Select(it.Seq, pos)
	var kv Value
	if _, isArr := it.M.Key.Underlying().(*types.Array); isArr {
		at := it.M.Key.Underlying().(*types.Array)
		kv = Ar{A: k, N: at.Len(), Elem: at.Elem()}
	} else {
		kv = Sc{k}
	}
	// value as stored now (the loop body may not modify the map: checked by guard/frame duties elsewhere)
	v := x.mapRead(st, st.heap, it.M, kv)
	st.ghost[it.Name+".pos"] = Ite(okT, Add(pos, Int(1)), pos)
	return Tup{Sc{okT}, kv, v}
}

// stringIndex: s[i] on a string: bounds duty, then the i-th byte of the (abstract) string.
func (x *Exec) stringIndex(st *State, fr *Frame, sv Sc, idx *Term, pos token.Pos) Value {
	declareFun("strlen", "(declare-fun strlen (Int) Int)")
	declareFun("strbytes", "(declare-fun strbytes (Int) (Array Int Int))")
	n := x.builtinVals(st, fr, "len", []Value{sv}, nil, pos).(Sc).T
	x.safe(st, "index", pos, "string index in range", And(Le(Int(0), idx), Lt(idx, n)))
	b := Select(App("strbytes", SArr, sv.T), idx)
	st.assume(And(Le(Int(0), b), Le(b, Int(255))))
	return Sc{b}
}
