package main

import (
	"math/big"
	"fmt"
	"go/types"
	"strings"

	"golang.org/x/tools/go/ssa"
)

// Heap is a snapshot of all heap families: family name -> current term.
type Heap struct {
	fam   map[string]*Term
	alloc *Term // (Array Int Bool): allocated regions
}

func (h *Heap) clone() *Heap {
	n := &Heap{fam: make(map[string]*Term, len(h.fam)), alloc: h.alloc}
	for k, v := range h.fam {
		n.fam[k] = v
	}
	return n
}

var gensym int

func fresh(prefix string) string {
	gensym++
	return fmt.Sprintf("%s!%d", prefix, gensym)
}

// family returns the current term of a family, creating the entry symbol on first use.
func (h *Heap) family(name, leafSort string) *Term {
	if t, ok := h.fam[name]; ok {
		return t
	}
	t := Sym(name+"@0", arrSort(SInt, arrSort(SInt, leafSort)))
	h.fam[name] = t
	return t
}

// Frame is one activation record.
type Frame struct {
	fn     *ssa.Function
	env    map[ssa.Value]Value
	block  *ssa.BasicBlock
	prev   *ssa.BasicBlock
	idx    int
	defers []deferred
	parent *Frame
	call   ssa.Instruction // call instruction in parent awaiting result (nil for root)
	names  map[string]Value
	loops  map[int]*loopSnap // header block index -> snapshot at loop entry
	info   *fnInfo
}

type deferred struct {
	call *ssa.CallCommon
	fn   Value
	args []Value
	pos  string
}

type loopSnap struct {
	heap    *Heap
	variant *Term
	names   map[string]Value
	locs    []loc // loop assigns clause evaluated at loop entry (nil: none given)
	ghost   map[string]*Term
	gensym  int // generated-symbol counter at loop entry: fresh regions numbered above it were allocated inside the loop
}

func (f *Frame) clone() *Frame {
	if f == nil {
		return nil
	}
	n := *f
	n.env = make(map[ssa.Value]Value, len(f.env))
	for k, v := range f.env {
		n.env[k] = v
	}
	n.names = make(map[string]Value, len(f.names))
	for k, v := range f.names {
		n.names[k] = v
	}
	n.loops = make(map[int]*loopSnap, len(f.loops))
	for k, v := range f.loops {
		n.loops[k] = v
	}
	n.defers = append([]deferred(nil), f.defers...)
	n.parent = f.parent.clone()
	return &n
}

// State is one symbolic execution path.
type State struct {
	hyps   []*Term
	hypSet map[string]bool
	heap   *Heap
	old    *Heap // heap at function entry (root frame)
	top    *Frame
	ghost  map[string]*Term // ghost scalars (effect-log counters, held flags, ...)
	oldGh  map[string]*Term
	trace  []string
	depth  int
	dead   bool
	locks  []*Term // regions of objects whose mutex was locked on this path
	// regions: region-valued terms known (by an assumed alloc fact) to be allocated on this path;
	// a region allocated later is different from each of them.
	regions   []*Term
	regionSet map[string]bool
	// abstracted: calls on this path whose effect was abstracted without a written contract
	// (auto-abstracted value-only externals). A failed obligation on such a path is not a
	// refutation by itself: it is trusted only if it replays on the real code.
	abstracted []string
}

func (s *State) clone() *State {
	n := &State{
		hyps:      append([]*Term(nil), s.hyps...),
		hypSet:    make(map[string]bool, len(s.hypSet)),
		heap:      s.heap.clone(),
		old:       s.old,
		top:       s.top.clone(),
		ghost:     make(map[string]*Term, len(s.ghost)),
		oldGh:     s.oldGh,
		trace:     append([]string(nil), s.trace...),
		depth:     s.depth,
		locks:     append([]*Term(nil), s.locks...),
		regions:   append([]*Term(nil), s.regions...),
		regionSet: make(map[string]bool, len(s.regionSet)),
		abstracted: append([]string(nil), s.abstracted...),
	}
	for k := range s.regionSet {
		n.regionSet[k] = true
	}
	for k := range s.hypSet {
		n.hypSet[k] = true
	}
	for k, v := range s.ghost {
		n.ghost[k] = v
	}
	return n
}

func (s *State) assume(t *Term) {
	if t.IsTrue() || t == tErr {
		return
	}
	if t.Op == "and" {
		for _, a := range t.Args {
			s.assume(a)
		}
		return
	}
	if t.Op == "=>" && len(t.Args) == 2 && t.Args[1].Op == "and" {
		// H => (A && B): assume H => A and H => B separately (keeps quantified and ground facts apart)
		for _, a := range t.Args[1].Args {
			s.assume(Implies(t.Args[0], a))
		}
		return
	}
	if t.Op == "=>" && len(t.Args) == 2 {
		// modus ponens on what is literally known: conjuncts of the antecedent that are hypotheses already are dropped
		var rest []*Term
		dropped := false
		for _, a := range conjuncts(t.Args[0]) {
			if s.hypSet[a.String()] {
				dropped = true
				continue
			}
			rest = append(rest, a)
		}
		if dropped {
			s.assume(Implies(And(rest...), t.Args[1]))
			return
		}
	}
	k := t.String()
	if s.hypSet[k] {
		return
	}
	s.hypSet[k] = true
	s.hyps = append(s.hyps, t)
	if t.IsFalse() {
		s.dead = true
	}
}

// ---- heap access ----

// assumeLeafFacts adds type-range / allocation facts for a freshly read leaf.
func (s *State) assumeLeafFacts(l leaf, x *Term, h *Heap) {
	if l.rng != nil && !x.IsInt() {
		s.assume(And(Le(BigInt(l.rng.lo), x), Le(x, BigInt(l.rng.hi))))
	}
	switch {
	case strings.HasSuffix(l.path, "$r"), strings.HasSuffix(l.path, "$p"):
		if !x.IsInt() {
			s.assume(Ge(x, Int(0)))
			s.assume(Select(h.alloc, x))
			if h == s.heap {
				s.noteRegion(x)
			}
		}
	case strings.HasSuffix(l.path, "$o"), strings.HasSuffix(l.path, "$l"):
		if !x.IsInt() {
			s.assume(Ge(x, Int(0)))
		}
	}
}

func (s *State) sliceFacts(v Sl) {
	if v.Loc != nil {
		return
	}
	s.assume(Le(v.L, v.C))
	s.assume(Ge(v.L, Int(0)))
	s.assume(Ge(v.O, Int(0)))
}

func addValueFacts(s *State, v Value) {
	switch vv := v.(type) {
	case Sl:
		s.sliceFacts(vv)
		// nil slice: region 0 has no capacity
		s.assume(Implies(Eq(vv.R, Int(0)), Eq(vv.C, Int(0))))
	case St:
		for _, f := range vv.F {
			addValueFacts(s, f)
		}
	case Tup:
		for _, f := range vv {
			addValueFacts(s, f)
		}
	}
}

// famRanges: the value range of the cells of a heap family, as implied by the Go type of the leaf (a byte is 0..255,
// a slice length is not negative). The loads of the generator assume it for every cell they read (assumeLeafFacts);
// the instance stage of skolem.go assumes it for the cells its instances read.
var famRanges = map[string][2]*big.Int{}

func noteFamilyRange(name string, l leaf) {
	if _, ok := famRanges[name]; ok {
		return
	}
	switch {
	case l.rng != nil:
		famRanges[name] = [2]*big.Int{l.rng.lo, l.rng.hi}
	case strings.HasSuffix(l.path, "$o"), strings.HasSuffix(l.path, "$l"), strings.HasSuffix(l.path, "$c"), strings.HasSuffix(l.path, "$r"), strings.HasSuffix(l.path, "$p"):
		famRanges[name] = [2]*big.Int{big.NewInt(0), nil}
	}
}

// loadAt reads a value of type t located at (root, r, i, pathPrefix) from heap h.
func (s *State) loadAt(h *Heap, root types.Type, r, i *Term, prefix string, t types.Type, facts bool) Value {
	v := unflatten(t, "", func(l leaf) *Term {
		name := familyName(root, joinPath(prefix, l.path))
		fam := h.family(name, l.sort)
		noteFamilyRange(name, l)
		x := Select(Select(fam, r), i)
		if !facts && (strings.HasSuffix(l.path, "$r") || strings.HasSuffix(l.path, "$p")) {
			// read under a quantifier: the entry-heap well-formedness fact in quantified form
			// (every region stored in the heap at function entry was allocated at entry)
			rv, iv := Sym("wf.r."+name, SInt), Sym("wf.i."+name, SInt)
			e := Select(Select(Sym(name+"@0", fam.Sort), rv), iv)
			s.assume(Forall([]*Term{rv, iv}, Select(Sym("alloc@0", SArrB), e), e))
		}
		if facts {
			s.assumeLeafFacts(l, x, h)
			if strings.HasSuffix(l.path, "$r") || strings.HasSuffix(l.path, "$p") {
				// entry-heap well-formedness: a region stored in the heap at function entry was allocated at entry
				e := Select(Select(Sym(name+"@0", fam.Sort), r), i)
				s.assume(Select(Sym("alloc@0", SArrB), e))
			}
		}
		return x
	})
	v = fixPtrRoots(v, t)
	if facts {
		addValueFacts(s, v)
	}
	return v
}

func fixPtrRoots(v Value, t types.Type) Value { return v }

// storeAt writes v of type t at (root, r, i, pathPrefix) into s.heap.
func (s *State) storeAt(root types.Type, r, i *Term, prefix string, t types.Type, v Value) {
	flatten(v, t, "", func(l leaf, x *Term) {
		name := familyName(root, joinPath(prefix, l.path))
		fam := s.heap.family(name, l.sort)
		s.heap.fam[name] = Store(fam, r, Store(Select(fam, r), i, x))
	})
}

// load through a pointer.
func (s *State) load(h *Heap, p Ptr, facts bool) Value {
	if p.ArrRegion {
		at := p.Elem.Underlying().(*types.Array)
		if _, _, ok := scalarSort(at.Elem()); !ok {
			panic(unsupported("load of whole array of non-scalars"))
		}
		if !p.I.IsInt() || p.I.Val.Sign() != 0 {
			panic(unsupported("array region load at non-zero offset"))
		}
		_, es, _ := leafOfScalar(at.Elem())
		fam := h.family(familyName(p.Root, ""), es)
		return Ar{A: Select(fam, p.R), N: at.Len(), Elem: at.Elem()}
	}
	prefix, t, aidx := pathString(p.Root, p.Path)
	if aidx != nil {
		// element of an array leaf
		at := arrayTypeAt(p.Root, p.Path)
		av := s.loadAt(h, p.Root, p.R, p.I, prefix, at, facts).(Ar)
		x := Select(av.A, aidx)
		if _, r, ok := scalarSort(t); ok && r != nil && facts {
			s.assume(And(Le(BigInt(r.lo), x), Le(x, BigInt(r.hi))))
		}
		return Sc{x}
	}
	return s.loadAt(h, p.Root, p.R, p.I, prefix, t, facts)
}

func arrayTypeAt(root types.Type, path []pathElem) types.Type {
	t := root
	for _, pe := range path {
		if pe.Index != nil {
			return t
		}
		t = t.Underlying().(*types.Struct).Field(pe.Field).Type()
	}
	return t
}

func (s *State) store(p Ptr, v Value) {
	if p.ArrRegion {
		at := p.Elem.Underlying().(*types.Array)
		if !p.I.IsInt() || p.I.Val.Sign() != 0 {
			panic(unsupported("array region store at non-zero offset"))
		}
		_, es, ok := leafOfScalar(at.Elem())
		if !ok {
			panic(unsupported("store of whole array of non-scalars"))
		}
		name := familyName(p.Root, "")
		fam := s.heap.family(name, es)
		s.heap.fam[name] = Store(fam, p.R, v.(Ar).A)
		return
	}
	prefix, t, aidx := pathString(p.Root, p.Path)
	if aidx != nil {
		at := arrayTypeAt(p.Root, p.Path)
		av := s.loadAt(s.heap, p.Root, p.R, p.I, prefix, at, false).(Ar)
		nv := Ar{A: Store(av.A, aidx, v.(Sc).T), N: av.N, Elem: av.Elem}
		s.storeAt(p.Root, p.R, p.I, prefix, at, nv)
		return
	}
	s.storeAt(p.Root, p.R, p.I, prefix, t, v)
}

// allocRegion returns a fresh, non-nil, previously unallocated region id.
func (s *State) noteRegion(x *Term) {
	if s.regionSet == nil {
		s.regionSet = map[string]bool{}
	}
	k := x.String()
	if s.regionSet[k] || len(s.regions) >= 60 {
		return
	}
	s.regionSet[k] = true
	s.regions = append(s.regions, x)
}

func (s *State) allocRegion(hint string) *Term {
	r := Sym(fresh("fresh."+hint), SInt)
	s.assume(Gt(r, Int(0)))
	s.assume(Not(Select(s.heap.alloc, r)))
	// the new region differs from every region already known to be allocated on this path
	for _, t := range s.regions {
		if !isFreshSym(t) {
			s.assume(Ne(r, t))
		}
	}
	s.noteRegion(r)
	if s.old != nil && s.old.alloc != s.heap.alloc {
		// also unallocated at entry (monotone allocation), stated explicitly to spare the solver
		s.assume(Not(Select(s.old.alloc, r)))
	}
	s.heap.alloc = Store(s.heap.alloc, r, tTrue)
	return r
}

// elemLoad reads element idx (absolute index inside the region) of a slice's backing store.
func (s *State) elemLoad(h *Heap, sl Sl, abs *Term, facts bool) Value {
	if sl.Loc != nil {
		av := s.load(h, *sl.Loc, facts).(Ar)
		x := Select(av.A, abs)
		if _, r, ok := scalarSort(sl.Elem); ok && r != nil && facts {
			s.assume(And(Le(BigInt(r.lo), x), Le(x, BigInt(r.hi))))
		}
		return Sc{x}
	}
	return s.loadAt(h, sl.Elem, sl.R, abs, "", sl.Elem, facts)
}

func (s *State) elemStore(sl Sl, abs *Term, v Value) {
	if sl.Loc != nil {
		av := s.load(s.heap, *sl.Loc, false).(Ar)
		s.store(*sl.Loc, Ar{A: Store(av.A, abs, v.(Sc).T), N: av.N, Elem: av.Elem})
		return
	}
	s.storeAt(sl.Elem, sl.R, abs, "", sl.Elem, v)
}

// freshValue creates a fully symbolic value of type t named by prefix.
func (s *State) freshValue(prefix string, t types.Type) Value {
	v := unflatten(t, "", func(l leaf) *Term {
		x := Sym(prefix+l.path, l.sort)
		if l.rng != nil {
			symRanges[x.Name] = *l.rng
		}
		s.assumeLeafFacts(l, x, s.heap)
		return x
	})
	addValueFacts(s, v)
	return v
}

func leafOfScalar(t types.Type) (types.Type, string, bool) {
	s, _, ok := scalarSort(t)
	return t, s, ok
}
