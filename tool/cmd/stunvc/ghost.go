package main

import (
	"go/ast"
	"go/token"
)

func (x *Exec) guardCheck(st *State, pv Ptr, pos token.Pos, what string) {}
func (x *Exec) ghostEvent(st *State, kind, site string)                  {}
func (x *Exec) chanClose(st *State, ch Value, pos token.Pos)             {}
func (x *Exec) checkGhostPost(st *State, pos token.Pos)                  {}
func (c *evalCtx) ghostCall(name string, n *ast.CallExpr) (Value, bool)  { return nil, false }
