package main

import (
	"fmt"
	"go/ast"
	"go/token"
	"go/types"
	"strings"
)

// ---- lock discipline (C14, C15): ghost map held[region of the object owning the mutex] ----

func (p *Program) guardFor(root types.Type) *Guard {
	n, ok := root.(*types.Named)
	if !ok {
		return nil
	}
	for _, cs := range p.cs {
		if g, ok := cs.Guards[n.Obj().Name()]; ok {
			return g
		}
	}
	return nil
}

func heldTerm(st *State, r *Term) *Term {
	return Select(ghostGet(st.ghost, "held", SArr), r)
}

// guardCheck: a load/store of a guarded field needs the object's mutex held.
func (x *Exec) guardCheck(st *State, pv Ptr, pos token.Pos, what string) {
	if pv.Glob != nil || len(pv.Path) == 0 || pv.Path[0].Index != nil {
		return
	}
	g := x.p.guardFor(pv.Root)
	if g == nil {
		return
	}
	stt, ok := pv.Root.Underlying().(*types.Struct)
	if !ok {
		return
	}
	fname := stt.Field(pv.Path[0].Field).Name()
	if !g.Fields[fname] {
		// field-access discipline of a shared object (data-race argument): atomic fields are never read or written
		// plainly, frozen fields are never written after construction, every field is classified
		if !g.Complete || isFreshSym(pv.R) || (x.fc != nil && x.fc.Constructs) {
			return
		}
		switch {
		case g.Atomic[fname]:
			x.oblige(st, "race-discipline", x.pos(pos), fmt.Sprintf("plain %s of %s.%s, which is declared atomic (sync/atomic only)", what, g.Type, fname), g.SharedProps, tFalse)
		case g.Frozen[fname]:
			if what == "write" {
				x.oblige(st, "race-discipline", x.pos(pos), fmt.Sprintf("write of %s.%s, which is declared frozen after construction", g.Type, fname), g.SharedProps, tFalse)
			}
		case g.Sync[fname]:
			x.oblige(st, "race-discipline", x.pos(pos), fmt.Sprintf("%s of the synchronisation object %s.%s as a value (copy)", what, g.Type, fname), g.SharedProps, tFalse)
		default:
			x.oblige(st, "race-discipline", x.pos(pos), fmt.Sprintf("%s of %s.%s, which is not classified (guarded / atomic / frozen / sync)", what, g.Type, fname), g.SharedProps, tFalse)
		}
		return
	}
	if isFreshSym(pv.R) {
		return // object under construction (not yet shared)
	}
	x.oblige(st, "guarded", x.pos(pos), fmt.Sprintf("%s of %s.%s only while holding %s.%s", what, g.Type, fname, g.Type, g.Mutex), g.Props, Eq(heldTerm(st, pv.R), Int(1)))
}

func (x *Exec) guardMap(st *State, m MapV, pos token.Pos, what string) {
	if m.Guard == nil || m.GuardInfo == nil {
		return
	}
	x.oblige(st, "guarded", x.pos(pos), fmt.Sprintf("map %s only while holding %s.%s", what, m.GuardInfo.Type, m.GuardInfo.Mutex), m.GuardInfo.Props, Eq(heldTerm(st, m.Guard), Int(1)))
}

// noteLock tracks Lock/Unlock calls for the per-path duties.
func (x *Exec) noteLock(st *State, key string, args []Value, pos token.Pos) {
	if len(args) == 0 {
		return
	}
	pv, ok := args[0].(Ptr)
	if !ok {
		return
	}
	switch {
	case strings.HasSuffix(key, ".Lock") || strings.HasSuffix(key, ".RLock"):
		for _, r := range st.locks {
			if same(r, pv.R) {
				x.oblige(st, "lock-once", x.pos(pos), "one critical section per method (linearization point)", []string{"C14"}, tFalse)
			}
		}
		st.locks = append(st.locks, pv.R)
	}
}

// noLockHeld: calls through handlers / interfaces must not happen inside a critical section.
func (x *Exec) noLockHeld(st *State, pos token.Pos, what string) {
	if x.fc != nil && x.fc.CallsUnderLock {
		return
	}
	for _, r := range st.locks {
		x.oblige(st, "call-unlocked", x.pos(pos), what+" outside the critical section", []string{"C14", "C15"}, Eq(heldTerm(st, r), Int(0)))
	}
}

func (x *Exec) ghostEvent(st *State, kind, site string) {}
func (x *Exec) chanClose(st *State, ch Value, pos token.Pos) {
	// close(ch): closing twice panics; ghost map chclosed[ch]
	t := scT(ch)
	cur := ghostGet(st.ghost, "chclosed", SArr)
	x.safe(st, "close", pos, "close of nil or closed channel", And(Not(Eq(t, Int(0))), Eq(Select(cur, t), Int(0))))
	st.ghost["chclosed"] = Store(cur, t, Int(1))
}
func (x *Exec) checkGhostPost(st *State, pos token.Pos)                 {}
func (c *evalCtx) ghostCall(name string, n *ast.CallExpr) (Value, bool) { return nil, false }
