package main

import (
	"bytes"
	"context"
	"encoding/json"
	"fmt"
	"os"
	"os/exec"
	"path/filepath"
	"regexp"
	"strconv"
	"strings"
	"sync"
	"time"
)

// The oracle harness (/verif/replay): independent RFC-derived reference implementations that search for a
// concrete failing input on the REAL code (injected with `go test -overlay`, nothing is written to /repo).
// It is used (1) to replay a failed obligation: a violation is "confirmed" when the oracle for the property
// finds a failing input; (2) as a bounded stand-in where no contract is discharged (labelled bounded).

type oracleResult struct {
	ran      bool
	failed   bool
	inputs   []string
	cases    int
	output   string
	cmd      string
	duration float64
	tags     string
}

var (
	oracleMu    sync.Mutex
	oracleCache = map[string]*oracleResult{}
)

func oraclePkg(property string) string {
	if property == "C18" {
		return "./internal/hmac"
	}
	return "."
}

func hasOracle(property string) bool {
	pat := "func TestOracle" + property + "("
	for _, dir := range []string{"replay", "replay/hmac"} {
		files, _ := filepath.Glob(filepath.Join(verifDir, dir, "*.go"))
		for _, f := range files {
			if b, err := os.ReadFile(f); err == nil && bytes.Contains(b, []byte(pat)) {
				return true
			}
		}
	}
	return false
}

// runOracle runs TestOracle<property> on /repo's working tree (once per property, tag set and budget).
func runOracle(property, tags string, budgetMs int, seed int) *oracleResult {
	key := fmt.Sprintf("%s|%s|%d", property, tags, budgetMs)
	oracleMu.Lock()
	defer oracleMu.Unlock()
	if r, ok := oracleCache[key]; ok {
		return r
	}
	r := &oracleResult{tags: tags}
	oracleCache[key] = r
	if !hasOracle(property) {
		return r
	}
	ov := map[string]map[string]string{"Replace": {}}
	add := func(glob, dst string) {
		files, _ := filepath.Glob(filepath.Join(verifDir, glob))
		for _, f := range files {
			ov["Replace"][filepath.Join(repoDir, dst, "zz_"+filepath.Base(f))] = f
		}
	}
	add("replay/*.go", "")
	add("replay/hmac/*.go", "internal/hmac")
	dir := filepath.Join(verifDir, "out", "replay")
	os.MkdirAll(dir, 0o755)
	// one overlay file per process and property: checks may run concurrently
	ovFile := filepath.Join(dir, fmt.Sprintf("overlay-%s-%d.json", property, os.Getpid()))
	b, _ := json.Marshal(ov)
	os.WriteFile(ovFile, b, 0o644)
	defer os.Remove(ovFile)
	args := []string{"test", "-v", "-overlay", ovFile, "-vet=off", "-count=1", "-timeout", "180s", "-run", "^TestOracle" + property + "$"}
	var goTags []string
	for _, t := range strings.Split(tags, ",") {
		if t != "verif" && t != "" {
			goTags = append(goTags, t)
		}
	}
	if len(goTags) > 0 {
		args = append(args, "-tags", strings.Join(goTags, ","))
	}
	args = append(args, oraclePkg(property))
	ctx, cancel := context.WithTimeout(context.Background(), time.Duration(budgetMs+150000)*time.Millisecond)
	defer cancel()
	cmd := exec.CommandContext(ctx, "go", args...)
	cmd.Dir = repoDir
	cmd.Env = append(os.Environ(), "GOFLAGS=-mod=mod", "GOPROXY=off", "GOSUMDB=off", "GOTOOLCHAIN=local",
		"GOCACHE="+filepath.Join(verifDir, "out", "gocache"),
		"ORACLE_BUDGET_MS="+strconv.Itoa(budgetMs), "ORACLE_SEED="+strconv.Itoa(seed+1))
	var out bytes.Buffer
	cmd.Stdout = &out
	cmd.Stderr = &out
	t0 := time.Now()
	err := cmd.Run()
	r.duration = time.Since(t0).Seconds()
	r.ran = true
	r.output = out.String()
	r.cmd = fmt.Sprintf("python3 /verif/tools/mkoverlay.py && cd %s && ORACLE_BUDGET_MS=%d ORACLE_SEED=%d GOFLAGS=-mod=mod GOPROXY=off go %s", repoDir, budgetMs, seed+1,
		strings.Replace(strings.Join(args, " "), ovFile, "/verif/out/replay/overlay-manual.json", 1))
	for _, l := range strings.Split(r.output, "\n") {
		if strings.HasPrefix(l, "FAILING-INPUT: ") {
			r.inputs = append(r.inputs, strings.TrimPrefix(l, "FAILING-INPUT: "))
		}
		if m := regexp.MustCompile(`^ORACLE-CASES: (\d+)`).FindStringSubmatch(l); m != nil {
			n, _ := strconv.Atoi(m[1])
			r.cases += n
		}
	}
	if strings.Contains(r.output, "panic:") && len(r.inputs) == 0 && err != nil {
		r.inputs = append(r.inputs, "the oracle run crashed: "+firstLines(r.output[strings.Index(r.output, "panic:"):], 3))
	}
	r.failed = err != nil && len(r.inputs) > 0
	return r
}

var replaySeed int
var replayBudgetMs = 6000

// tryReplay: a failed obligation is confirmed when the property's oracle finds a failing input on the real code.
func tryReplay(progs []*Program, property string, ob *Obligation) (string, bool) {
	tags := ob.Tags
	r := runOracle(property, tags, replayBudgetMs, replaySeed)
	var b strings.Builder
	if !r.ran {
		b.WriteString("no oracle is available for this property; the verifier gave no replayable counterexample\n")
		return b.String(), false
	}
	fmt.Fprintf(&b, "replay: bounded search for a failing input on the real code (independent RFC oracle, %d cases, %.1fs)\n", r.cases, r.duration)
	fmt.Fprintf(&b, "replay command: %s\n", r.cmd)
	if r.failed {
		b.WriteString("CONFIRMED on the real code; failing inputs:\n")
		for _, in := range r.inputs {
			b.WriteString("  " + in + "\n")
		}
		return b.String(), true
	}
	b.WriteString("the bounded search found no failing input within its budget (the obligation is still undischarged)\n")
	if strings.Contains(r.output, "FAIL") || strings.Contains(r.output, "build failed") {
		b.WriteString("oracle output:\n" + truncate(r.output, 3000) + "\n")
	}
	return b.String(), false
}
