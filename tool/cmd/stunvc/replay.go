package main

func tryReplay(progs []*Program, property string, ob *Obligation) (string, bool) {
	return "no model replay implemented for this obligation kind yet", false
}
