package main

import (
	"fmt"
	"go/types"

	"golang.org/x/tools/go/ssa"
)

// callCycle reports whether a static call from caller to callee lies on a cycle of the
// static call graph of the verified packages (direct or mutual recursion). Closures count
// as part of the function that creates them. Dynamic calls (interface methods, function
// values) are not followed: recursion through them is a listed assumption.
func (p *Program) callCycle(caller, callee *ssa.Function) bool {
	if caller == nil || callee == nil {
		return false
	}
	root := func(f *ssa.Function) *ssa.Function {
		for f.Parent() != nil {
			f = f.Parent()
		}
		return f
	}
	caller, callee = root(caller), root(callee)
	if p.reach == nil {
		p.reach = map[*ssa.Function]map[*ssa.Function]bool{}
	}
	r, ok := p.reach[callee]
	if !ok {
		r = map[*ssa.Function]bool{}
		var visit func(f *ssa.Function)
		visit = func(f *ssa.Function) {
			var scan func(g *ssa.Function)
			scan = func(g *ssa.Function) {
				for _, b := range g.Blocks {
					for _, in := range b.Instrs {
						var cc *ssa.CallCommon
						switch i := in.(type) {
						case *ssa.Call:
							cc = &i.Call
						case *ssa.Defer:
							cc = &i.Call
						case *ssa.Go:
							cc = &i.Call
						}
						if cc == nil {
							continue
						}
						if t := cc.StaticCallee(); t != nil && t.Pkg != nil && p.verified[t.Pkg.Pkg.Path()] {
							t = root(t)
							if !r[t] {
								r[t] = true
								visit(t)
							}
						}
					}
				}
				for _, a := range g.AnonFuncs {
					scan(a)
				}
			}
			scan(f)
		}
		visit(callee)
		p.reach[callee] = r
	}
	return r[caller]
}

// staticLockOnce: the one-critical-section-per-method duty (C14) does not depend on data: two Lock/RLock calls on the
// guarding mutex of the receiver, one reachable from the other, are two critical sections whatever happens in between.
// Emitted before the paths are run, so that it is reported even when the function leaves the supported subset.
func (x *Exec) staticLockOnce(st *State) {
	recv := x.fn.Signature.Recv()
	if recv == nil {
		return
	}
	rt := recv.Type()
	if p, ok := rt.(*types.Pointer); ok {
		rt = p.Elem()
	}
	g := x.p.guardFor(rt)
	if g == nil || g.Mutex == "" {
		return
	}
	isC14 := false
	for _, p := range g.Props {
		if p == "C14" {
			isC14 = true
		}
	}
	if !isC14 {
		return
	}
	type site struct {
		in  ssa.Instruction
		blk *ssa.BasicBlock
		idx int
	}
	var sites []site
	for _, b := range x.fn.Blocks {
		for k, in := range b.Instrs {
			c, ok := in.(*ssa.Call)
			if !ok {
				continue
			}
			fn := c.Call.StaticCallee()
			if fn == nil || fn.Pkg == nil || fn.Pkg.Pkg.Path() != "sync" || (fn.Name() != "Lock" && fn.Name() != "RLock") || len(c.Call.Args) == 0 {
				continue
			}
			fa, ok := c.Call.Args[0].(*ssa.FieldAddr)
			if !ok {
				continue
			}
			stt, ok := fa.X.Type().Underlying().(*types.Pointer).Elem().Underlying().(*types.Struct)
			if !ok || stt.Field(fa.Field).Name() != g.Mutex {
				continue
			}
			sites = append(sites, site{in, b, k})
		}
	}
	reach := func(from, to *ssa.BasicBlock) bool {
		seen := map[*ssa.BasicBlock]bool{}
		var dfs func(b *ssa.BasicBlock) bool
		dfs = func(b *ssa.BasicBlock) bool {
			for _, s := range b.Succs {
				if s == to {
					return true
				}
				if !seen[s] {
					seen[s] = true
					if dfs(s) {
						return true
					}
				}
			}
			return false
		}
		return dfs(from)
	}
	for _, a := range sites {
		for _, b := range sites {
			if a.in == b.in {
				continue
			}
			if (a.blk == b.blk && a.idx < b.idx) || (a.blk != b.blk && reach(a.blk, b.blk)) {
				x.oblige(st, "lock-once", x.pos(b.in.Pos()), fmt.Sprintf("one critical section per method (linearization point): %s.%s is locked here again after the lock at %s", g.Type, g.Mutex, x.pos(a.in.Pos())), []string{"C14"}, tFalse)
			}
		}
	}
}
