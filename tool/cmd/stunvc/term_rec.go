package main

import (
	"golang.org/x/tools/go/ssa"
)

// callCycle reports whether a static call from caller to callee lies on a cycle of the
// static call graph of the verified packages (direct or mutual recursion). Closures count
// as part of the function that creates them. Dynamic calls (interface methods, function
// values) are not followed: recursion through them is a listed assumption.
func (p *Program) callCycle(caller, callee *ssa.Function) bool {
	if caller == nil || callee == nil {
		return false
	}
	root := func(f *ssa.Function) *ssa.Function {
		for f.Parent() != nil {
			f = f.Parent()
		}
		return f
	}
	caller, callee = root(caller), root(callee)
	if p.reach == nil {
		p.reach = map[*ssa.Function]map[*ssa.Function]bool{}
	}
	r, ok := p.reach[callee]
	if !ok {
		r = map[*ssa.Function]bool{}
		var visit func(f *ssa.Function)
		visit = func(f *ssa.Function) {
			var scan func(g *ssa.Function)
			scan = func(g *ssa.Function) {
				for _, b := range g.Blocks {
					for _, in := range b.Instrs {
						var cc *ssa.CallCommon
						switch i := in.(type) {
						case *ssa.Call:
							cc = &i.Call
						case *ssa.Defer:
							cc = &i.Call
						case *ssa.Go:
							cc = &i.Call
						}
						if cc == nil {
							continue
						}
						if t := cc.StaticCallee(); t != nil && t.Pkg != nil && p.verified[t.Pkg.Pkg.Path()] {
							t = root(t)
							if !r[t] {
								r[t] = true
								visit(t)
							}
						}
					}
				}
				for _, a := range g.AnonFuncs {
					scan(a)
				}
			}
			scan(f)
		}
		visit(callee)
		p.reach[callee] = r
	}
	return r[caller]
}
