package main

import (
	"bufio"
	"fmt"
	"os"
	"path/filepath"
	"regexp"
	"strings"
)

// ---- known findings ----

type knownFinding struct {
	property string
	pattern  *regexp.Regexp // obligation name pattern
	what     string
}

type knownFindings struct{ list []knownFinding }

// KNOWN_FINDINGS.txt lines:
//
//	known: property=C03 obligation=<regexp> <what fails>
//	fixed: property=C07 <commit> <what failed>       (suppresses nothing)
func loadKnownFindings() *knownFindings {
	kf := &knownFindings{}
	f, err := os.Open(filepath.Join(verifDir, "KNOWN_FINDINGS.txt"))
	if err != nil {
		return kf
	}
	defer f.Close()
	sc := bufio.NewScanner(f)
	for sc.Scan() {
		l := strings.TrimSpace(sc.Text())
		if !strings.HasPrefix(l, "known:") {
			continue
		}
		fs := strings.Fields(strings.TrimPrefix(l, "known:"))
		var k knownFinding
		var rest []string
		for _, f := range fs {
			switch {
			case strings.HasPrefix(f, "property=") && k.property == "":
				k.property = strings.TrimPrefix(f, "property=")
			case strings.HasPrefix(f, "obligation=") && k.pattern == nil:
				re, err := regexp.Compile("^(?:" + strings.TrimPrefix(f, "obligation=") + ")$")
				if err == nil {
					k.pattern = re
				}
			default:
				rest = append(rest, f)
			}
		}
		k.what = strings.Join(rest, " ")
		if k.property != "" && k.pattern != nil {
			kf.list = append(kf.list, k)
		}
	}
	return kf
}

func (kf *knownFindings) match(property string, ob *Obligation) *knownFinding {
	for i := range kf.list {
		k := &kf.list[i]
		if k.property == property && k.pattern.MatchString(ob.Name) {
			return k
		}
	}
	return nil
}

// ---- replay files ----

func writeReplay(property, name, body string, ob *Obligation) string {
	dir := filepath.Join(verifDir, "out", "replay")
	os.MkdirAll(dir, 0o755)
	path := filepath.Join(dir, property+"_"+obFileName(name)+".txt")
	var b strings.Builder
	fmt.Fprintf(&b, "property: %s\n", property)
	if ob != nil {
		fmt.Fprintf(&b, "failed obligation: %s\nkind: %s\nfunction: %s\nsource: %s\nwhat: %s\ntags: %s\n", ob.Name, ob.Kind, ob.Func, ob.Pos, ob.Descr, ob.Tags)
		if ob.Result != nil {
			fmt.Fprintf(&b, "solver status: %s (%s)\nsolver output: %s\nsmt file: %s\n", ob.Result.Status, ob.Result.Solver, ob.Result.Detail, ob.Result.File)
		}
		fmt.Fprintf(&b, "goal: %s\n", truncate(ob.Goal.String(), 4000))
	}
	b.WriteString(body)
	b.WriteString("\n")
	os.WriteFile(path, []byte(b.String()), 0o644)
	return path
}

// replayObligation tries to turn a failed obligation into a failing input on the real code.
func replayObligation(progs []*Program, property string, ob *Obligation) (string, bool) {
	body, confirmed := tryReplay(progs, property, ob)
	return writeReplay(property, ob.Name, body, ob), confirmed
}
