package main

import (
	"runtime"
	"encoding/json"
	"flag"
	"fmt"
	"go/token"
	"os"
	"path/filepath"
	"sort"
	"strconv"
	"strings"
	"time"

	"golang.org/x/tools/go/packages"
	"golang.org/x/tools/go/ssa"
	"golang.org/x/tools/go/ssa/ssautil"
)

var (
	repoDir  = "/repo"
	verifDir = "/verif"
)

const (
	pkgStun = "github.com/pion/stun/v3"
	pkgHmac = "github.com/pion/stun/v3/internal/hmac"
)

func loadProgram(tags string) (*Program, error) {
	fset := token.NewFileSet()
	cfg := &packages.Config{
		Mode:       packages.LoadAllSyntax,
		Dir:        repoDir,
		Fset:       fset,
		BuildFlags: []string{"-tags=" + tags},
		Env: append(os.Environ(), "GOFLAGS=-mod=mod", "GOPROXY=off", "GOSUMDB=off", "GOTOOLCHAIN=local",
			"GOCACHE="+filepath.Join(verifDir, "out", "gocache")),
	}
	initial, err := packages.Load(cfg, ".", "./internal/hmac")
	if err != nil {
		return nil, err
	}
	for _, p := range initial {
		for _, e := range p.Errors {
			return nil, fmt.Errorf("package %s does not build: %v", p.PkgPath, e)
		}
	}
	prog, pkgs := ssautil.AllPackages(initial, ssa.GlobalDebug)
	prog.Build()
	p := &Program{prog: prog, fset: fset, pkgs: map[string]*ssa.Package{}, cs: map[string]*ContractSet{}, tags: tags,
		verified: map[string]bool{pkgStun: true, pkgHmac: true}, infos: map[*ssa.Function]*fnInfo{},
		strIDs: map[string]int64{}, typeIDs: map[string]int64{}, errIDs: map[string]int64{},
		trusted: map[string]bool{}, transp: map[string]bool{}}
	for _, sp := range pkgs {
		if sp != nil {
			p.pkgs[sp.Pkg.Path()] = sp
		}
	}
	for pkg, file := range map[string]string{pkgStun: "verif_contracts.go", pkgHmac: "internal/hmac/verif_contracts.go"} {
		cs := newContractSet()
		path := filepath.Join(repoDir, file)
		if _, err := os.Stat(path); err == nil {
			if err := cs.parseFile(path); err != nil {
				return nil, err
			}
		}
		p.cs[pkg] = cs
	}
	p.spec = newContractSet()
	specs, _ := filepath.Glob(filepath.Join(verifDir, "spec", "*.spec"))
	sort.Strings(specs)
	for _, f := range specs {
		if err := p.spec.parseFile(f); err != nil {
			return nil, err
		}
	}
	return p, nil
}

// functions returns the SSA functions of the verified packages keyed by contract key.
func (p *Program) functions(pkg string) map[string]*ssa.Function {
	out := map[string]*ssa.Function{}
	sp := p.pkgs[pkg]
	if sp == nil {
		return out
	}
	for fn := range ssautil.AllFunctions(p.prog) {
		if fn.Pkg != sp || fn.Synthetic != "" {
			continue
		}
		_, k := funcKey(fn)
		out[k] = fn
	}
	return out
}

type funcReport struct {
	Key         string   `json:"function"`
	Tags        string   `json:"tags"`
	Paths       int      `json:"paths"`
	Obligations int      `json:"obligations"`
	Errors      []string `json:"errors,omitempty"`
}

type runResult struct {
	obs     []*Obligation
	smokes  []*smoke
	funcs   []funcReport
	errs    []string
	notes   []string
	trusted map[string]bool
	transp  map[string]bool
	smoke   []string
}

func hasProp(ps []string, p string) bool {
	for _, q := range ps {
		if q == p {
			return true
		}
	}
	return false
}

// generate runs the VC generator for all functions whose contract mentions the property.
func generate(p *Program, property string, onlyFunc string) *runResult {
	rr := &runResult{trusted: p.trusted, transp: p.transp}
	for _, pkg := range []string{pkgStun, pkgHmac} {
		cs := p.cs[pkg]
		fns := p.functions(pkg)
		var keys []string
		for k := range cs.Funcs {
			keys = append(keys, k)
		}
		sort.Strings(keys)
		for _, k := range keys {
			fc := cs.Funcs[k]
			if onlyFunc != "" && k != onlyFunc {
				continue
			}
			if property != "" && !fc.AllProps[property] {
				continue
			}
			fn, ok := fns[k]
			if !ok {
				// interface / dynamic-call contracts have no body; anything else is an error
				if strings.Count(k, ".") >= 1 && !strings.HasPrefix(k, "(") && isDynContractKey(p, pkg, k) {
					continue
				}
				// A helper under contract that no longer exists has no callers either (the package compiles):
				// nothing to verify, and nothing can rely on its contract. Reported as a note, not as an alarm.
				rr.notes = append(rr.notes, fmt.Sprintf("contract for %s: no such function in %s (tags %s) - skipped", k, pkg, p.tags))
				continue
			}
			if fc.Trusted {
				continue
			}
			x := p.verify(fn, fc)
			rep := funcReport{Key: k, Tags: p.tags, Paths: x.paths, Errors: x.errs}
			if len(x.errs) > 0 {
				// the function is not verified (it left the subset, or a contract clause no longer evaluates): its
				// other obligations may fail merely for lack of the skipped clause, so none of them is a refutation
				// by itself (decided by replay, like paths through abstracted externals), and no vacuity claim is made
				for _, ob := range x.obs {
					if !ob.Static {
						ob.Abstracted = append(ob.Abstracted, "function not verified: "+x.errs[0])
					}
				}
				x.smokes = nil
			}
			for _, ob := range x.obs {
				if property == "" || hasProp(ob.Props, property) {
					rr.obs = append(rr.obs, ob)
					rep.Obligations++
				}
			}
			for _, e := range x.errs {
				rr.errs = append(rr.errs, k+": "+e)
			}
			rr.smokes = append(rr.smokes, x.smokes...)
			rr.funcs = append(rr.funcs, rep)
			if len(fc.Derives) > 0 {
				dx := p.verifyDerived(fn, fc)
				drep := funcReport{Key: k + " [derives]", Tags: p.tags, Paths: dx.paths, Errors: dx.errs}
				for _, ob := range dx.obs {
					if len(dx.errs) > 0 {
						ob.Abstracted = append(ob.Abstracted, "derivation not verified: "+dx.errs[0])
					}
					if property == "" || hasProp(ob.Props, property) {
						rr.obs = append(rr.obs, ob)
						drep.Obligations++
					}
				}
				for _, e := range dx.errs {
					rr.errs = append(rr.errs, k+" [derives]: "+e)
				}
				rr.funcs = append(rr.funcs, drep)
			}
		}
	}
	return rr
}

// isDynContractKey: keys like "Setter.AddTo" (interface method) or "(*Message).ForEach.f" (func-valued parameter).
func isDynContractKey(p *Program, pkg, k string) bool {
	sp := p.pkgs[pkg]
	if sp == nil {
		return false
	}
	parts := strings.Split(k, ".")
	if obj := sp.Pkg.Scope().Lookup(parts[0]); obj != nil {
		if _, ok := obj.Type().Underlying().(interface{ NumMethods() int }); ok {
			return true
		}
		return true // named func type etc.
	}
	// "<func key>.<param>"
	fns := p.functions(pkg)
	if i := strings.LastIndex(k, "."); i > 0 {
		if _, ok := fns[k[:i]]; ok {
			return true
		}
	}
	return strings.HasPrefix(k, "func.")
}

type evidence struct {
	PropertyID  string                 `json:"property_id"`
	Tier        string                 `json:"tier"`
	Seed        int                    `json:"seed"`
	Level       string                 `json:"level"`
	Coverage    map[string]interface{} `json:"coverage"`
	Assumptions []string               `json:"assumptions"`
	WallS       float64                `json:"wall_s"`
	Violations  int                    `json:"violations"`
}

func main() {
	if len(os.Args) < 2 {
		fmt.Fprintln(os.Stderr, "usage: stunvc check|dump ...")
		os.Exit(2)
	}
	switch os.Args[1] {
	case "check":
		os.Exit(cmdCheck(os.Args[2:]))
	case "sigs":
		os.Exit(cmdSigs())
	case "uncovered":
		os.Exit(cmdUncovered())
	case "dump":
		os.Exit(cmdDump(os.Args[2:]))
	default:
		fmt.Fprintln(os.Stderr, "unknown command", os.Args[1])
		os.Exit(2)
	}
}

var tagSets = map[string][]string{
	"C01": {"verif", "verif,debug"}, "C04": {"verif", "verif,debug"}, "C05": {"verif", "verif,debug"},
	"C07": {"verif", "verif,debug"}, "C09": {"verif", "verif,debug"},
}

func cmdCheck(args []string) int {
	fs := flag.NewFlagSet("check", flag.ExitOnError)
	property := fs.String("property", "", "property id")
	tier := fs.String("tier", "quick", "quick|thorough")
	only := fs.String("func", "", "restrict to one function (debugging)")
	verbose := fs.Bool("v", false, "verbose")
	noEvidence := fs.Bool("no-evidence", false, "do not write the evidence file")
	timeout := fs.Int("timeout", 0, "solver timeout (s)")
	tagsFlag := fs.String("tags", "", "override tag sets (semicolon separated)")
	fs.StringVar(&repoDir, "repo", repoDir, "repository")
	fs.Parse(args)
	if t := os.Getenv("VERIF_TIER"); t != "" && *tier == "" {
		*tier = t
	}
	seed := 0
	if s := os.Getenv("VERIF_SEED"); s != "" {
		seed, _ = strconv.Atoi(s)
	}
	replaySeed = seed
	if *tier == "thorough" {
		replayBudgetMs = 30000
	}
	t0 := time.Now()
	smtDir = filepath.Join(verifDir, "out", "smt", *property+"-"+*tier)
	if repoDir != "/repo" || *only != "" {
		// a run against another tree (selftest) or of a single function (debugging) must not wipe the query files of a
		// concurrent run of the registered check
		smtDir = filepath.Join(verifDir, "out", "smt", fmt.Sprintf("%s-%s-%d", *property, *tier, os.Getpid()))
		defer os.RemoveAll(smtDir)
	}
	if d := os.Getenv("STUNVC_SMTDIR"); d != "" {
		smtDir = d
	}
	os.RemoveAll(smtDir)
	os.MkdirAll(smtDir, 0o755)
	tsets := tagSets[*property]
	if tsets == nil {
		tsets = []string{"verif"}
	}
	if *tagsFlag != "" {
		tsets = strings.Split(*tagsFlag, ";")
	}
	var all []*Obligation
	var funcs []funcReport
	var genErrs []string
	trusted := map[string]bool{}
	transp := map[string]bool{}
	var progs []*Program
	var smokes []*smoke
	for _, tags := range tsets {
		p, err := loadProgram(tags)
		if err != nil {
			genErrs = append(genErrs, fmt.Sprintf("load (%s): %v", tags, err))
			continue
		}
		progs = append(progs, p)
		tGen := time.Now()
		rr := generate(p, *property, *only)
		if os.Getenv("STUNVC_TIMING") != "" {
			fmt.Fprintf(os.Stderr, "timing: generate %s: %.1fs, %d obligations\n", tags, time.Since(tGen).Seconds(), len(rr.obs))
		}
		tPrep := time.Now()
		defer func() {
			if os.Getenv("STUNVC_TIMING") != "" {
				fmt.Fprintf(os.Stderr, "timing: since prepare start %s: %.1fs\n", tags, time.Since(tPrep).Seconds())
			}
		}()
		for _, ob := range rr.obs {
			ob.Name = tags + ":" + ob.Name
			ob, p := ob, p
			plain := &Obligation{Name: ob.Name, Func: ob.Func, Kind: ob.Kind, Props: ob.Props, Pos: ob.Pos, Descr: ob.Descr, Tags: ob.Tags, Uses: ob.Uses,
				Hyps: append([]*Term(nil), ob.Hyps...), Goal: ob.Goal}
			p.instantiate(ob)
			// the skolemised variant is built on demand (only when the ground core did not decide the obligation)
			ob.prep = func() {
				alt := skolemVariant(plain)
				if alt != nil {
					p.instantiate(alt)
					ob.Alt = alt
				}
			}
			ob.prepAnte = func() { p.prepareAntecedents(ob.Alt) }
		}
		all = append(all, rr.obs...)
		for _, sm := range rr.smokes {
			sm.name = tags + ":" + sm.name
		}
		smokes = append(smokes, rr.smokes...)
		if tags == tsets[0] {
			smokes = append(smokes, p.axiomSmokes()...)
		}
		funcs = append(funcs, rr.funcs...)
		for _, e := range rr.errs {
			genErrs = append(genErrs, "["+tags+"] "+e)
		}
		for _, n := range rr.notes {
			fmt.Printf("NOTE: [%s] %s\n", tags, n)
		}
		for k := range rr.trusted {
			trusted[k] = true
		}
		for k := range rr.transp {
			transp[k] = true
		}
		lob, lerr := p.lemmaObligations(*property)
		for _, ob := range lob {
			ob.Name = tags + ":" + ob.Name
		}
		if tags == tsets[0] {
			all = append(all, lob...)
			genErrs = append(genErrs, lerr...)
		}
	}
	to := 25
	if *tier == "thorough" {
		to = 120
	}
	if *timeout > 0 {
		to = *timeout
	}
	workers := 14
	if *tier == "thorough" {
		workers = 5 // three solvers race per obligation in this tier
	}
	if n := runtime.NumCPU(); workers > n {
		workers = n // solver budgets are wall-clock: never oversubscribe the machine
	}
	tDis := time.Now()
	dischargeAll(all, *tier, to, workers)
	if os.Getenv("STUNVC_TIMING") != "" {
		fmt.Fprintf(os.Stderr, "timing: discharge %.1fs\n", time.Since(tDis).Seconds())
	}
	vac := runSmokes(smokes, workers)
	for _, v := range vac {
		genErrs = append(genErrs, "vacuous hypotheses (contradictory contract/invariant): "+v)
	}

	// report
	var failed []*Obligation
	nTriv, nDis := 0, 0
	for _, ob := range all {
		switch ob.Result.Status {
		case "trivial":
			nTriv++
		case "unsat":
			nDis++
		default:
			failed = append(failed, ob)
		}
		if *verbose {
			fmt.Printf("  %-8s %-7s %6.2fs %s  [%s]\n", ob.Result.Status, ob.Result.Solver, ob.Result.Seconds, ob.Name, truncate(ob.Result.Detail, 80))
		}
	}
	violations := 0
	exit := 0
	kf := loadKnownFindings()
	for _, e := range genErrs {
		fmt.Printf("NOT-VERIFIED: %s\n", e)
	}
	// Anything that is not a refutation on fully modelled code (a function that left the supported subset,
	// a contract that no longer evaluates, a failure on a path through an auto-abstracted external) leaves the
	// property UNDECIDED by proof. It is then decided by replay on the real code: the property's oracle searches
	// for a failing input; a hit is a violation, a clean bounded search is reported as undecided (exit 0, the
	// evidence for this run is downgraded from proof), and if no search can be run the check fails closed.
	undecidedOut = nil
	decideByReplay := func(label, text string) {
		var hits []string
		ranAll := true
		cases := 0
		var cmds []string
		for _, tags := range tsets {
			r := runOracle(*property, tags, replayBudgetMs, seed)
			if !r.ran || strings.Contains(r.output, "build failed") || (r.cases == 0 && !r.failed) {
				ranAll = false
				continue
			}
			cases += r.cases
			cmds = append(cmds, r.cmd)
			if r.failed {
				hits = append(hits, r.inputs...)
			}
		}
		switch {
		case len(hits) > 0:
			path := writeReplay(*property, label, text+"\nCONFIRMED on the real code by the property's oracle; failing inputs:\n  "+strings.Join(hits, "\n  ")+"\nreplay command: "+strings.Join(cmds, "\n"), nil)
			fmt.Printf("VIOLATION property=%s replay=%s obligation=%s\n", *property, path, label)
			violations++
			exit = 1
		case !ranAll:
			path := writeReplay(*property, label, text+"\nno bounded search could be run on this tree; the property is undecided and the check fails closed", nil)
			fmt.Printf("VIOLATION property=%s replay=%s obligation=%s no-failing-input-found\n", *property, path, label)
			violations++
			exit = 1
		default:
			if len(undecidedOut) < 5 {
				fmt.Printf("UNDECIDED: property=%s %s: not decided by proof on this tree; bounded replay on the real code found no failing input (%d cases)\n", *property, label, cases)
			}
			undecidedOut = append(undecidedOut, label+": "+firstLines(text, 4))
		}
	}
	if len(genErrs) > 0 {
		vacuous := false
		for _, e := range genErrs {
			if strings.HasPrefix(e, "vacuous hypotheses") {
				vacuous = true
			}
		}
		if vacuous {
			// contradictory hypotheses make every proof on that path worthless: fail closed
			path := writeReplay(*property, "vacuity", strings.Join(genErrs, "\n"), nil)
			fmt.Printf("VIOLATION property=%s replay=%s obligation=vacuity no-failing-input-found\n", *property, path)
			violations++
			exit = 1
		} else {
			decideByReplay("generator-errors", strings.Join(genErrs, "\n"))
		}
	}
	seenSite := map[string]bool{}
	for _, ob := range failed {
		site := ob.Name
		if i := strings.LastIndex(site, "#"); i > 0 {
			rest := site[i:]
			site = site[:i]
			if j := strings.Index(rest, "."); j > 0 {
				site += rest[j:] // keep the conjunct number, drop the path number
			}
		}
		if seenSite[site] {
			continue // same duty on another path: one report per site
		}
		seenSite[site] = true
		if k := kf.match(*property, ob); k != nil {
			fmt.Printf("KNOWN-FINDING: property=%s %s\n", *property, k.what)
			continue
		}
		if len(ob.Abstracted) > 0 {
			decideByReplay(ob.Name, fmt.Sprintf("obligation %s (%s) is undischarged (%s) on a path through auto-abstracted external calls %v; such a failure counts only if it replays", ob.Name, ob.Descr, ob.Result.Status, ob.Abstracted))
			continue
		}
		path, confirmed := replayObligation(progs, *property, ob)
		suffix := ""
		if !confirmed {
			suffix = " no-failing-input-found"
		}
		fmt.Printf("VIOLATION property=%s replay=%s obligation=%s status=%s%s\n", *property, path, ob.Name, ob.Result.Status, suffix)
		violations++
		exit = 1
	}
	if len(undecidedOut) > 5 {
		fmt.Printf("UNDECIDED: property=%s ... and %d more obligations of functions that are not verified on this tree (listed in the evidence)\n", *property, len(undecidedOut)-5)
	}
	// bounded stand-ins (labelled bounded, never counted as proved): the property's oracle on the unchanged tree
	var standins []map[string]interface{}
	sd, ok := boundedStandins[*property]
	if !ok && *tier == "thorough" && hasOracle(*property) {
		// thorough tier: the replay oracle of every property is also run as a bounded cross-check of the contracts
		sd, ok = "cross-check (thorough tier only): the property's independent replay oracle run as a bounded search on this tree; not part of the proof and never counted as proved", true
	}
	if ok && *only == "" {
		budget := 2500
		if *tier == "thorough" {
			budget = 30000
		}
		for _, tags := range tsets {
			r := runOracle(*property, tags, budget, seed)
			if !r.ran {
				continue
			}
			entry := map[string]interface{}{"what": sd, "bound": fmt.Sprintf("%d ms of generated cases, seed %d", budget, seed+1), "cases": r.cases, "tags": tags, "result": "pass", "cmd": r.cmd}
			if r.failed {
				entry["result"] = "FAIL"
				entry["failing_inputs"] = r.inputs
				path := writeReplay(*property, "bounded-standin-"+tags, "bounded stand-in: "+sd+"\nreplay command: "+r.cmd+"\nfailing inputs:\n  "+strings.Join(r.inputs, "\n  "), nil)
				fmt.Printf("VIOLATION property=%s replay=%s obligation=bounded-standin\n", *property, path)
				violations++
				exit = 1
			} else if strings.Contains(r.output, "build failed") || strings.Contains(r.output, "cannot") && !strings.Contains(r.output, "ok ") {
				entry["result"] = "not run: " + firstLines(r.output, 3)
			}
			standins = append(standins, entry)
		}
	}
	standinsOut = standins
	// vacuity: obligation count must be non-zero
	if len(all) == 0 && exit == 0 {
		fmt.Printf("VIOLATION property=%s replay=%s obligation=none no-failing-input-found\n", *property,
			writeReplay(*property, "vacuity", "no obligations were generated for this property", nil))
		violations++
		exit = 1
	}
	wall := time.Since(t0).Seconds()
	fmt.Printf("property=%s tier=%s tags=%v functions=%d obligations=%d discharged=%d trivially_closed=%d failed=%d wall=%.1fs\n",
		*property, *tier, tsets, len(funcs), len(all)-nTriv, nDis, nTriv, len(failed), wall)
	if !*noEvidence && *only == "" {
		writeEvidence(*property, *tier, seed, all, funcs, trusted, transp, nTriv, nDis, violations, wall, tsets, progs)
	}
	if exit == 0 && os.Getenv("STUNVC_KEEP_SMT") == "" && os.Getenv("STUNVC_SMTDIR") == "" {
		// the query files of a clean run are of no further use (a run of C03 writes about a gigabyte); after a
		// violation they stay: the replay files point at them
		os.RemoveAll(smtDir)
	}
	return exit
}

var nSmokes int
var standinsOut []map[string]interface{}
var undecidedOut []string

// boundedStandins: what the oracle run stands in for (parts of the property no discharged contract covers).
var boundedStandins = map[string]string{
	"C03": "cross-check (the wire bytes of re-encoded attributes and the decode/encode compositions are proved since session 6: Wire invariant, lemma functions): byte-for-byte equality of built messages with an independent reference encoder, decode-then-encode against canonical bytes, Equal, on generated messages (0..6 attributes, values 0..3200 bytes, fresh / reused / poisoned buffers)",
	"C10": "whole histories on the real Client with the real Agent (in-memory connection, manual clock and collector): all histories up to depth 4 over {Start id1/id2, Do, response, duplicate, garbage, tick past the deadline, fail next write, fail next agent Start, Close} and random histories of length 4..17; goroutine schedules are NOT perturbed",
	"C11": "histories with message sizes 20..4100 bytes, attempt limits 0..8, ticks just before / at / just after each deadline, SetRTO in flight, caller-side buffer reuse; every write compared byte for byte with the snapshot and judged against the (k+1)*rto schedule",
	"C12": "1..40 concurrent transactions with random ids, responses up to the 1024-byte read buffer in random order with duplicates, unknown ids and garbage, recycled transaction objects; handler sees exactly the datagram",
	"C15": "option combinations (default / WithNoConnClose, fallback handler) x histories ending in one or several Close calls, pending reader Read under WithNoConnClose, connection close errors; concurrent Close/Start schedules are NOT explored",
	"C16": "whole-process behaviour of ParseURI on concrete strings, including the trusted parsers: every string over an 18-symbol alphabet of URI-significant characters (incl. NUL, space, a non-ASCII rune) up to length 3 after the prefixes stun: and turns: (exhaustive, 12350), a scheme x host x port x query grammar product incl. fragments and broken IPv6 brackets (7128), 200 random byte strings and three very long strings, run in supervised child processes (a fatal stack overflow kills only the child and is bisected to its input)",
	"C17": "character-level facts that abstract strings cannot express: default ports 3478/5349, IPv6 bracket handling, rejection rules and ParseURI(u.String()) == u on grammar-generated URIs (4 schemes x reg-name/IPv4/IPv6 x absent/boundary/out-of-range/signed ports x query variants); DialURI against an injected transport.Net for all 5x3 scheme/transport pairs and for sequences reusing one DialConfig (server name observed in the ClientHello)",
	"C06": "stand-in for IPv6 bytes 4-15 of the XOR-MAPPED-ADDRESS round trip (the only part of add -> decode -> get not proved by a lemma function), cross-check for the rest: the composition for every typed attribute on generated values (all ports, IPv4/IPv6/mapped addresses, text up to each limit, codes 300..699, lists of 0..64 types) and reference-encoded messages",
}

func writeEvidence(property, tier string, seed int, all []*Obligation, funcs []funcReport, trusted, transp map[string]bool,
	nTriv, nDis, violations int, wall float64, tsets []string, progs []*Program) {
	var samples []interface{}
	perKind := map[string]int{}
	perStage := map[string]int{}
	for _, ob := range all {
		perKind[ob.Kind]++
		if ob.Result != nil && ob.Result.Status == "unsat" {
			st := "plain query (" + ob.Result.Solver + ")"
			switch {
			case ob.Result.Detail == "ground-core":
				st = "ground core (no quantified hypotheses)"
			case strings.HasPrefix(ob.Result.Detail, "skolemised, instances only"):
				st = "skolemised variant, instances only (ground)"
			case strings.HasPrefix(ob.Result.Detail, "skolemised"):
				st = "skolemised variant, quantified hypotheses kept"
			}
			if strings.Contains(ob.Result.Detail, "antecedent(s) established") && !strings.Contains(ob.Result.Detail, " 0 antecedent") {
				st += " + established antecedents"
			}
			perStage[st]++
		}
	}
	sort.Slice(all, func(i, j int) bool { return all[i].Name < all[j].Name })
	step := len(all)/12 + 1
	for i := 0; i < len(all); i += step {
		ob := all[i]
		samples = append(samples, map[string]interface{}{"obligation": ob.Name, "kind": ob.Kind, "what": ob.Descr,
			"status": ob.Result.Status, "solver": ob.Result.Solver, "smt_sha256_16": ob.Result.Hash, "goal": truncate(ob.Goal.String(), 300)})
	}
	var tb []string
	for k := range trusted {
		tb = append(tb, "assumed contract: "+k)
	}
	sort.Strings(tb)
	tb = append(tb, "go/packages + go/ssa (x/tools v0.29.0) faithfully represent the compiled code",
		"z3 4.8.12, z3-new 5.1.0 (default and legacy arithmetic core), cvc5 1.0 are sound when they answer unsat",
		"the VC generator (/verif/tool) itself")
	var tl []string
	for k := range transp {
		tl = append(tl, k)
	}
	sort.Strings(tl)
	stats.mu.Lock()
	sv := map[string]interface{}{"wins": stats.wins, "solver_seconds": stats.seconds, "calls": stats.calls}
	stats.mu.Unlock()
	level := "proof"
	if len(undecidedOut) > 0 {
		level = "other" // not a proof on this tree: see coverage.undecided
	}
	ev := evidence{PropertyID: property, Tier: tier, Seed: seed, Level: level, WallS: wall, Violations: violations,
		Coverage: map[string]interface{}{
			"obligations":          len(all) - nTriv,
			"discharged":           nDis,
			"trivially_closed":     nTriv,
			"checker_cmd":          fmt.Sprintf("/verif/bin/stunvc check -property %s -tier %s", property, tier),
			"trusted_base":         tb,
			"functions":            funcs,
			"obligations_by_kind":  perKind,
			"discharged_by_stage":  perStage,
			"transparent_unfolded": tl,
			"tag_sets":             tsets,
			"solvers":              sv,
			"integer_mode":         "mathematical Int with exact wrap-around for 8/16/32-bit and unsigned types; int/int64 unbounded",
			"samples":              samples,
			"bounded_standins":     standinsOut,
			"vacuity_probes":       nSmokes,
			"undecided":            undecidedOut,
		},
		Assumptions: assumptionList(progs),
	}
	os.MkdirAll(filepath.Join(verifDir, "evidence"), 0o755)
	b, _ := json.MarshalIndent(ev, "", " ")
	os.WriteFile(filepath.Join(verifDir, "evidence", property+".json"), b, 0o644)
}

func assumptionList(progs []*Program) []string {
	out := []string{
		"int/int64 arithmetic is treated as mathematical (no 64-bit overflow)",
		"package-level error variables are distinct, non-nil and never reassigned",
		"interior pointers passed as parameters do not alias other parameters' objects",
		"goroutine interleavings, the Go memory model, stack depth, real time and the allocator are not modelled",
		"externals terminate",
		"heap cells hold values of their Go type (a byte is 0..255, a slice length is not negative): assumed for every cell a load or a quantifier instance reads",
		"proof-only lemma functions (verif_lemmas.go) and derives clauses are checked like any other contract; use clauses can only assume instances of separately proved lemmas",
	}
	seen := map[string]bool{}
	for _, p := range progs {
		for _, fc := range p.spec.Funcs {
			if fc.Trusted && p.trusted[fc.Name] && !seen[fc.Name] {
				seen[fc.Name] = true
				out = append(out, "trusted contract "+strings.Join(fc.Src, " ; "))
			}
		}
		for _, ax := range p.spec.Axioms {
			if !ax.Lemma && !seen["ax:"+ax.Name] {
				seen["ax:"+ax.Name] = true
				out = append(out, "spec axiom (definition) "+ax.Src)
			}
		}
	}
	sort.Strings(out[7:])
	return out
}

func truncate(s string, n int) string {
	if len(s) > n {
		return s[:n] + "..."
	}
	return s
}

func cmdDump(args []string) int {
	fs := flag.NewFlagSet("dump", flag.ExitOnError)
	tags := fs.String("tags", "verif", "build tags")
	fn := fs.String("func", "", "function key")
	fs.Parse(args)
	p, err := loadProgram(*tags)
	if err != nil {
		fmt.Fprintln(os.Stderr, err)
		return 1
	}
	for _, pkg := range []string{pkgStun, pkgHmac} {
		if f, ok := p.functions(pkg)[*fn]; ok {
			f.WriteTo(os.Stdout)
			fi := p.info(f)
			fmt.Printf("loops (header block -> ordinal): %v\n", fi.headers)
			return 0
		}
	}
	fmt.Fprintln(os.Stderr, "no such function")
	return 1
}

// cmdSigs prints "<contract key>\t<param names>" for every function under contract whose header has no positional
// parameter list (used once to make the contracts independent of parameter renames).
func cmdSigs() int {
	p, err := loadProgram("verif")
	if err != nil {
		fmt.Fprintln(os.Stderr, err)
		return 1
	}
	for _, pkg := range []string{pkgStun, pkgHmac} {
		fns := p.functions(pkg)
		for k, fc := range p.cs[pkg].Funcs {
			fn, ok := fns[k]
			if !ok || fc.Params != nil {
				continue
			}
			var names []string
			for _, prm := range fn.Params {
				names = append(names, prm.Name())
			}
			fmt.Printf("%s\t%s\t%s\n", pkg, k, strings.Join(names, ", "))
		}
	}
	return 0
}

// cmdUncovered lists the functions of the verified packages that have a body and no contract (they are unfolded at
// call sites when reached from a function under contract, and otherwise outside every check).
func cmdUncovered() int {
	p, err := loadProgram("verif")
	if err != nil {
		fmt.Fprintln(os.Stderr, err)
		return 1
	}
	for _, pkg := range []string{pkgStun, pkgHmac} {
		fns := p.functions(pkg)
		var keys []string
		for k, fn := range fns {
			if fn.Blocks == nil || fn.Parent() != nil || fn.Synthetic != "" {
				continue
			}
			if _, ok := p.cs[pkg].Funcs[k]; ok {
				continue
			}
			keys = append(keys, k)
		}
		sort.Strings(keys)
		for _, k := range keys {
			fn := fns[k]
			pos := p.fset.Position(fn.Pos())
			fmt.Printf("%s\t%s:%d\n", k, filepath.Base(pos.Filename), pos.Line)
		}
	}
	return 0
}
