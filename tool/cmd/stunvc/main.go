package main

import (
	"fmt"

	_ "golang.org/x/tools/go/packages"
	_ "golang.org/x/tools/go/ssa"
	_ "golang.org/x/tools/go/ssa/ssautil"
)

func main() { fmt.Println("stunvc") }
