#!/usr/bin/env python3
"""mkpatch.py <name> <file> <old> <new>: write selftest/mutants/<name>.patch replacing old by new in /repo/<file> (exactly one occurrence)."""
import sys, difflib
name, f, old, new = sys.argv[1:5]
s = open('/repo/' + f).read()
assert s.count(old) == 1, f"{s.count(old)} occurrences of old text"
t = s.replace(old, new)
d = difflib.unified_diff(s.splitlines(True), t.splitlines(True), 'a/' + f, 'b/' + f)
open(f'/verif/selftest/mutants/{name}.patch', 'w').write(''.join(d))
print("wrote", name)
