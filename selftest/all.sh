#!/bin/bash
# all.sh [ids...]: run every seeded change (or the given ones) against the quick check of its property,
# on a scratch worktree of /repo HEAD (never in /repo itself). Prints one line per seed: CAUGHT / MISSED.
# Afterwards the unchanged scratch tree is checked for every property touched (must stay green).
set -u
W=${SCRATCH:-/tmp/selftest-repo}
rm -rf $W; git -C /repo worktree prune; git -C /repo worktree add -q --detach $W HEAD || exit 2
trap 'git -C /repo worktree remove --force $W 2>/dev/null; rm -rf $W' EXIT
ids=${@:-$(ls /verif/seeded | grep -E '^C[0-9]+-m[0-9]+$')}
OUT=${SELFTEST_MD:-/verif/SELFTEST.md}
if [ $# -eq 0 ]; then
  { echo "# Seeded changes against the quick checks"; echo; echo "Run of \`selftest/all.sh\` on $(date -u +%Y-%m-%dT%H:%MZ); /repo HEAD $(git -C /repo rev-parse --short HEAD), /verif HEAD $(git -C /verif rev-parse --short HEAD)."
    echo "Each change is applied to a scratch worktree (never to /repo) and the quick check of its property is run with \`-repo\`."; echo
    echo "| seed | verdict | violations | with failing input | first failing obligation |"; echo "|---|---|---|---|---|"; } > $OUT
fi
for id in $ids; do
  prop=${id%%-*}
  grep -q "\"$prop\"" /verif/MANIFEST.json || { echo "$id: SKIP (property not claimed)"; continue; }
  python3 - "$prop" <<'PY' || { echo "$id: SKIP (not_applicable)"; continue; }
import json,sys
m=json.load(open('/verif/MANIFEST.json'))
sys.exit(0 if any(c['property_id']==sys.argv[1] for c in m['checks']) else 1)
PY
  git -C $W apply /verif/seeded/$id/patch.diff 2>/dev/null || { echo "$id: PATCH-DOES-NOT-APPLY"; continue; }
  out=$(/verif/bin/stunvc check -repo $W -property $prop -tier quick -no-evidence 2>&1); rc=$?
  git -C $W checkout -q -- . ; git -C $W clean -fdq
  v=$(echo "$out" | grep -c '^VIOLATION')
  conf=$(echo "$out" | grep '^VIOLATION' | grep -vc 'no-failing-input-found')
  und=$(echo "$out" | grep -c '^UNDECIDED')
  first=$(echo "$out" | grep '^VIOLATION' | head -1 | sed 's/.*obligation=//' | cut -c1-110)
  if [ $rc -ne 0 ] && [ $v -gt 0 ]; then echo "$id: CAUGHT rc=$rc violations=$v with-failing-input=$conf undecided=$und first=$first"; verdict=caught
  else echo "$id: MISSED rc=$rc undecided=$und $(echo "$out" | tail -1)"; verdict=MISSED; fi
  [ $# -eq 0 ] && echo "| $id | $verdict | $v | $conf | \`$(echo "$first" | sed 's/ status=.*//; s/|/\\|/g')\` |" >> $OUT
done
