#!/bin/bash
# canaries.sh: must-fail checks of the machinery itself. Each canary makes one CONTRACT clause wrong (the code is left
# alone) in a scratch worktree of /repo HEAD and runs the quick check of the function that carries it: the clause must
# stay undischarged. A canary that verifies means the derived-clause / instance / lemma machinery proves too much.
# Prints one line per canary: OK (rejected) / BROKEN (accepted).
set -u
W=${SCRATCH:-/tmp/canary-repo}
rm -rf $W; git -C /repo worktree prune; git -C /repo worktree add -q --detach $W HEAD || exit 2
trap 'git -C /repo worktree remove --force $W 2>/dev/null; rm -rf $W' EXIT
BIN=${STUNVC:-/verif/bin/stunvc}
bad=0
canary() { # name property function  python-replacement(old -> new)
  name=$1; prop=$2; fn=$3; old=$4; new=$5
  python3 - "$W/verif_contracts.go" "$old" "$new" <<'PY' || { echo "$name: CANARY-DOES-NOT-APPLY"; bad=1; return; }
import sys
p, old, new = sys.argv[1:]
s = open(p).read()
if old not in s: sys.exit(1)
open(p, 'w').write(s.replace(old, new, 1))
PY
  out=$($BIN check -repo $W -property $prop -func "$fn" -tier quick -no-evidence 2>&1); rc=$?
  git -C $W checkout -q -- .
  if [ $rc -ne 0 ] && echo "$out" | grep -q '^VIOLATION'; then echo "$name: OK (rejected: $(echo "$out" | grep -c '^VIOLATION') obligation(s) undischarged)"
  else echo "$name: BROKEN (a wrong clause was accepted) $(echo "$out" | tail -1)"; bad=1; fi
}
canary derive-false-bound C03 '(*Message).Add' \
  '//@   derives old(WireHdr(m)) ==> WireHdr(m)' \
  '//@   derives old(WireHdr(m)) ==> WireHdr(m) && forall(k, 0, len(m.Attributes), m.Attributes[k].Length <= 100, vpos(WLens(m), k))'
canary derive-without-location-discipline C03 '(*Message).Add' \
  '//@   derives old(WireHdr(m) && WireLoc(m) && WireVal(m) && NoClobber(m, val)) ==> WireVal(m)' \
  '//@   derives old(WireHdr(m) && WireVal(m)) ==> WireVal(m)'
canary padding-one-byte-more C03 '(*Message).Add' \
  '//@   derives old(WireHdr(m) && WirePad(m)) ==> WirePad(m)' \
  '//@   derives old(WireHdr(m) && WirePad(m)) ==> forall(k, 0, len(m.Attributes), forall(j, len(m.Attributes[k].Value), pad4(len(m.Attributes[k].Value)) + 1, m.Raw[vpos(WLens(m), k) + 4 + j] == 0), vpos(WLens(m), k))'
canary reencode-value-offset C03 '(*Message).WriteAttributes' \
  'm.Raw[vpos(WLens(m), k) + 4 + j] == loopold(attributes[k].Value[j])), vpos(WLens(m), k))' \
  'm.Raw[vpos(WLens(m), k) + 5 + j] == loopold(attributes[k].Value[j])), vpos(WLens(m), k))'
canary decode-lemma-without-alias C03 'verifLemmaDecodeOfWire' \
  'm.Attributes[k].Type == compat(old(m.Attributes[k].Type)) && m.Attributes[k].Length == old(m.Attributes[k].Length)' \
  'm.Attributes[k].Type == old(m.Attributes[k].Type) && m.Attributes[k].Length == old(m.Attributes[k].Length)'
canary decode-lemma-one-more-attribute C03 'verifLemmaDecodeOfWire' \
  '//@   ensures len(m.Attributes) == old(len(m.Attributes))
//@   ensures forall(k, 0, len(m.Attributes), m.Attributes[k].Type == compat' \
  '//@   ensures len(m.Attributes) == old(len(m.Attributes)) + 1
//@   ensures forall(k, 0, len(m.Attributes), m.Attributes[k].Type == compat'
canary text-roundtrip-ignoring-legacy-alias C06 'verifLemmaTextRoundTrip' \
  ' && t != 0x8020 && (t != 0x0020 || !Has(m, 0x8020)) && region(v) != region(m.Raw)' \
  ' && t != 0x8020 && region(v) != region(m.Raw)'
canary text-roundtrip-limit-off-by-one C06 'verifLemmaTextRoundTrip' \
  '//@   ensures len(v) > maxLen ==> result1 != nil' \
  '//@   ensures len(v) >= maxLen ==> result1 != nil'
canary errorcode-roundtrip-off-by-one C06 'verifLemmaErrorCodeRoundTrip' \
  'result1 == nil && result0.Code == c.Code && len(result0.Reason) == len(c.Reason)' \
  'result1 == nil && result0.Code == c.Code + 1 && len(result0.Reason) == len(c.Reason)'
canary unknown-attrs-roundtrip-without-precondition C06 'verifLemmaUnknownAttrsRoundTrip' \
  ' && region(a) != region(m.Raw) && !Has(m, 0x000A)' \
  ' && region(a) != region(m.Raw)'
canary mapped-addr-roundtrip-wrong-byte C06 'verifLemmaMappedAddrRoundTrip' \
  'len(result0.IP) == 16 && Eq16(result0.IP, a.IP)' \
  'len(result0.IP) == 16 && Eq16(result0.IP, a.IP) && result0.IP[3] == old(a.IP[2])'
canary equal-after-decode-with-legacy-alias C03 'verifLemmaEqualAfterDecode' \
  'm.Attributes[k].Type != 0x8020 && region(m.Attributes[k].Value) != region(d.Raw)' \
  'region(m.Attributes[k].Value) != region(d.Raw)'
exit $bad
