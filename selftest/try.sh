#!/bin/bash
# try.sh <patch> <property>...: apply a patch to /repo, run the quick checks, revert (git apply -R).
P=$1; shift
git -C /repo apply $P || { echo "patch does not apply: $P"; exit 2; }
for prop in "$@"; do /verif/bin/stunvc check -property $prop -no-evidence 2>&1 | grep -E "VIOLATION|NOT-VER|KNOWN|^property" | cut -c1-${W:-230}; done
git -C /repo apply -R $P
