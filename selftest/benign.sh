#!/bin/bash
# benign.sh [dir]: every <dir>/*.diff is a behaviour-preserving change; apply each to a scratch worktree of /repo HEAD and
# run ALL quick checks on it (-repo, no evidence). Every check must stay green: anything else is a false alarm.
set -u
SRC=${1:-/verif/benign}
W=${SCRATCH:-/tmp/benign-repo}
rm -rf $W; git -C /repo worktree prune; git -C /repo worktree add -q --detach $W HEAD || exit 2
trap 'git -C /repo worktree remove --force $W 2>/dev/null; rm -rf $W' EXIT
props=$(python3 -c "import json;print(' '.join(c['property_id'] for c in json.load(open('/verif/MANIFEST.json'))['checks']))")
for d in $SRC/*.diff; do
  id=$(basename $d .diff)
  git -C $W apply $d 2>/dev/null || { echo "$id: PATCH-DOES-NOT-APPLY"; continue; }
  tmp=$(mktemp -d)
  for p in $props; do
    ( /verif/bin/stunvc check -repo $W -property $p -tier quick -no-evidence > $tmp/$p.log 2>&1; echo $? > $tmp/$p.rc ) &
    while [ $(jobs -r | wc -l) -ge 5 ]; do sleep 0.3; done
  done
  wait
  alarms=""; und=""
  for p in $props; do
    rc=$(cat $tmp/$p.rc)
    [ "$rc" != 0 ] && alarms="$alarms $p[$(grep '^VIOLATION' $tmp/$p.log | head -1 | sed 's/.*obligation=//' | cut -c1-90)]"
    grep -q '^UNDECIDED' $tmp/$p.log && und="$und $p"
  done
  if [ -z "$alarms" ]; then echo "$id: GREEN${und:+ (undecided-by-proof, replay clean:$und)}"; else echo "$id: FALSE-ALARM$alarms${und:+ undecided:$und}"; fi
  rm -rf $tmp
  git -C $W checkout -q -- . ; git -C $W clean -fdq
done
