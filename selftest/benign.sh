#!/bin/bash
# benign.sh [dir]: every <dir>/*.diff is a behaviour-preserving change; apply each to a scratch worktree of /repo HEAD and
# run ALL quick checks on it (-repo, no evidence). Every check must stay green: anything else is a false alarm.
set -u
SRC=${1:-/verif/benign}
W=${SCRATCH:-/tmp/benign-repo}
rm -rf $W; git -C /repo worktree prune; git -C /repo worktree add -q --detach $W HEAD || exit 2
trap 'git -C /repo worktree remove --force $W 2>/dev/null; rm -rf $W' EXIT
allprops=$(python3 -c "import json;print(' '.join(c['property_id'] for c in json.load(open('/verif/MANIFEST.json'))['checks']))")
# BENIGN_AFFECTED=1: only the checks whose functions under contract live in (or call into) the files a diff touches
affected() {
  python3 - "$1" <<'PY'
import re, sys
files = set(re.findall(r'^\+\+\+ b/(\S+)', open(sys.argv[1]).read(), re.M))
m = {'message.go': 'C01 C02 C03 C04 C05 C06 C07 C08 C09 C12 C19', 'attributes.go': 'C01 C02 C03 C04 C05 C06 C07 C09', 'helpers.go': 'C02 C03 C09',
     'checks.go': 'C04 C05 C06 C07 C09', 'checks_debug.go': 'C04 C05 C06 C07 C09', 'errors.go': 'C01 C02 C07',
     'textattrs.go': 'C03 C06 C07 C09', 'addr.go': 'C03 C06 C07 C09', 'xoraddr.go': 'C03 C06 C07 C09', 'errorcode.go': 'C03 C06 C07 C09', 'uattrs.go': 'C03 C06 C07 C09',
     'integrity.go': 'C03 C04 C07 C09', 'fingerprint.go': 'C03 C05 C07 C09', 'fingerprint_debug.go': 'C05 C07', 'integrity_debug.go': 'C04 C07',
     'agent.go': 'C10 C12 C13 C14', 'client.go': 'C10 C11 C12 C15 C17', 'uri.go': 'C16 C17', 'stun.go': 'C01 C03',
     'internal/hmac/hmac.go': 'C04 C18', 'internal/hmac/pool.go': 'C04 C18'}
out = set()
for f in files:
    out |= set(m.get(f, 'C01 C02 C03 C04 C05 C06 C07 C08 C09 C10 C11 C12 C13 C14 C15 C16 C17 C18 C19').split())
print(' '.join(sorted(out)))
PY
}
for d in $SRC/*.diff; do
  id=$(basename $d .diff)
  props=$allprops
  [ -n "${BENIGN_AFFECTED:-}" ] && props=$(affected $d)
  git -C $W apply $d 2>/dev/null || { echo "$id: PATCH-DOES-NOT-APPLY"; continue; }
  tmp=$(mktemp -d)
  for p in $props; do
    ( /verif/bin/stunvc check -repo $W -property $p -tier quick -no-evidence > $tmp/$p.log 2>&1; echo $? > $tmp/$p.rc ) &
    while [ $(jobs -r | wc -l) -ge 5 ]; do sleep 0.3; done
  done
  wait
  alarms=""; und=""
  for p in $props; do
    rc=$(cat $tmp/$p.rc)
    [ "$rc" != 0 ] && alarms="$alarms $p[$(grep '^VIOLATION' $tmp/$p.log | head -1 | sed 's/.*obligation=//' | cut -c1-90)]"
    grep -q '^UNDECIDED' $tmp/$p.log && und="$und $p"
  done
  if [ -z "$alarms" ]; then echo "$id: GREEN${und:+ (undecided-by-proof, replay clean:$und)}"; else echo "$id: FALSE-ALARM$alarms${und:+ undecided:$und}"; fi
  rm -rf $tmp
  git -C $W checkout -q -- . ; git -C $W clean -fdq
done
