#!/bin/bash
# one.sh <diff> <props...>: apply a diff to a scratch worktree of /repo HEAD, run the quick checks of the given properties
W=/tmp/one-repo-$$; git -C /repo worktree prune; git -C /repo worktree add -q --detach $W HEAD || exit 2
trap 'git -C /repo worktree remove --force $W 2>/dev/null; rm -rf $W' EXIT
d=$1; shift
git -C $W apply $d || exit 2
for p in "$@"; do ${STUNVC:-/verif/bin/stunvc} check -repo $W -property $p -no-evidence 2>&1 | grep -E "VIOLATION|NOT-VER|UNDECIDED|KNOWN|^property" | cut -c1-${WIDTH:-260}; done
